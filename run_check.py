#!/venv/bin/python
"""CLI of the verification machinery.

  run_check.py C07 --tier quick|thorough     run one check (exit 0 held / 1 violation / 2 harness error)
  run_check.py --replay <file>                re-execute one stored counterexample without the explorer
  run_check.py --selftest                     imports, manifest + evidence schema validation, reference self-test
"""
import argparse
import os
import sys

HERE = os.path.dirname(os.path.abspath(__file__))


def _reexec_with_hashseed():
    if os.environ.get("PYTHONHASHSEED") != "0":
        os.environ["PYTHONHASHSEED"] = "0"
        os.execv(sys.executable, [sys.executable] + sys.argv)


def main():
    _reexec_with_hashseed()
    sys.path.insert(0, HERE)
    ap = argparse.ArgumentParser()
    ap.add_argument("property", nargs="?")
    ap.add_argument("--tier", default=os.environ.get("VERIF_TIER", "quick"), choices=["quick", "thorough"])
    ap.add_argument("--replay")
    ap.add_argument("--selftest", action="store_true")
    ap.add_argument("--workers", type=int, default=None)
    a = ap.parse_args()
    seed = int(os.environ.get("VERIF_SEED", "0") or 0)

    import cirkit

    if not os.path.realpath(cirkit.__file__).startswith("/repo/"):
        print(f"cirkit imported from {cirkit.__file__}, not /repo", file=sys.stderr)
        return 2

    if a.selftest:
        from mc import selftest

        return selftest.main()
    from mc import engine

    if a.replay:
        return engine.replay(a.replay)
    if not a.property:
        ap.error("property id required")
    return engine.run_check(a.property.upper(), a.tier, seed, a.workers)


if __name__ == "__main__":
    sys.exit(main())
