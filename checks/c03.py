"""C03 - integrate returns exactly the marginal / partition function (E1)."""
from __future__ import annotations

import os

from mc import alphabet as A
from mc import pools
from mc.pipecheck import check_pipeline, collapse

PROPERTY = "C03"
LEVEL = "exploration"
RULE = (
    "cases = (circuit of the bounded grammar with integrable inputs) x (every non-empty subset Z of its scope, and "
    "every ordered pair of disjoint non-empty subsets (Z1, Z2)) ; each case compiled under every semiring x "
    "(fold, optimize) and evaluated on every assignment of the remaining variables; oracle = brute-force sum / "
    "Gauss-Legendre quadrature of the operand's reference function. Non-trivial: the integral circuit was "
    "compared with the oracle under at least one configuration"
)
ASSUMPTIONS = [
    "continuous variables: 160-node Gauss-Legendre quadrature on [-10.5, 10.5], tolerance 1e-6 relative (discrete: 1e-9)",
    "generic / monotone valuations for real parameters (VERIF_SEED)",
]
BOUNDS = {"quick": {"max_vars": 3, "units": [1, 2]}, "thorough": {"max_vars": 3, "units": [1, 2, 3]}}
CHUNK = 4

DISC = ["emb", "cat-logits", "cat-probs", "cat-softmax", "cat-logsoftmax"]
CONT = ["gau", "gau-lp"]


def cases(tier, seed):
    thorough = tier == "thorough"
    units = [(2, 2, 1), (1, 1, 1)] if not thorough else [(2, 2, 1), (1, 1, 1), (2, 1, 2), (3, 2, 1), (2, 3, 3)]
    for tree, prod, style, nary in pools.structure_pool(tier):
        nv = len(A.tree_vars(tree))
        for kin, ksum, kout in units:
            if style == "plain" and kin != ksum:
                continue
            for inp in DISC + CONT + ["bin-probs"]:
                if inp in CONT and nv > 2 and not (thorough and (kin, ksum) == (2, 2) and prod == "had" and style == "cpt"):
                    continue
                if not thorough and inp in ("cat-softmax", "cat-logsoftmax", "bin-probs") and (kin, ksum, kout) != (2, 2, 1):
                    continue
                for numbering in (["id", "h8"] if (kin, ksum) == (2, 2) and (thorough or inp in ("emb", "gau-lp")) else ["id"]):
                    vs = pools.var_ids(tree, numbering)
                    for outputs in (["single", "two"] if (kin, ksum, kout) == (2, 2, 1) and inp in ("emb", "cat-logits", "gau") else ["single"]):
                        circ = dict(tree=tree, prod=prod, style=style, nary=nary, kin=kin, ksum=ksum, kout=kout, inp=inp,
                                    numbering=numbering, outputs=outputs)
                        for z in pools.subsets(vs):
                            if inp in CONT and len(z) > 2:
                                continue
                            yield {"circ": circ, "mode": "single", "z": z, "vk": "monotone" if inp != "emb" else "generic"}
                        if numbering == "id" and outputs == "single" and (kin, ksum, kout) == (2, 2, 1) and inp in (("emb", "cat-logits", "gau-lp", "cat-probs") if thorough else ("cat-logits", "gau-lp")):
                            for z1 in pools.subsets(vs):
                                rest = [v for v in vs if v not in z1]
                                for z2 in pools.subsets(rest):
                                    if inp in CONT and len(z1) + len(z2) > 2:
                                        continue
                                    yield {"circ": circ, "mode": "twostep", "z": z1, "z2": z2, "vk": "monotone"}
    # products of two DIFFERENT circuits (independent units), integrated over every subset
    for tree in A.REPRESENTATIVE_TREES[:2] + [("P", [0, 1]), 0]:
        for prod in ["had", "kro"]:
            for inp in ["emb", "cat-logits", "gau"]:
                for k1, k2 in [(2, 3), (3, 2), (2, 2), (1, 2)]:
                    if prod == "kro" and isinstance(tree, tuple) and len(A.tree_vars(tree)) == 3 and max(k1, k2) > 2:
                        continue
                    c1 = dict(tree=tree, prod=prod, style="cpt", nary="dense", kin=k1, ksum=k1, kout=1, inp=inp, numbering="id")
                    c2 = dict(c1, kin=k2, ksum=k2)
                    vs = pools.var_ids(tree, "id")
                    for z in pools.subsets(vs):
                        if inp == "gau" and len(z) > 1:
                            continue
                        yield {"circ": c1, "circ2": c2, "mode": "pair-int", "z": z, "vk": "generic" if inp == "emb" else "monotone"}
    # mixed input kinds, conditioned operands, products
    for tree in A.REPRESENTATIVE_TREES + [("P", [0, 1])]:
        for prod in ["had", "kro"]:
            circ = dict(tree=tree, prod=prod, style="cpt", nary="dense", kin=2, ksum=2, kout=1, inp="emb", numbering="h9",
                        mixed=["cat-logits", "gau-lp", "emb"])
            vs = pools.var_ids(tree, "h9")
            for z in pools.subsets(vs):
                yield {"circ": circ, "mode": "single", "z": z, "vk": "monotone"}
            for inp in ["emb", "cat-logits", "gau"]:
                circ = dict(tree=tree, prod=prod, style="cpt", nary="dense", kin=2, ksum=2, kout=1, inp=inp, numbering="gap")
                vs = pools.var_ids(tree, "gap")
                for z in pools.subsets(vs):
                    if inp == "gau" and len(z) > 1:
                        continue
                    yield {"circ": circ, "mode": "square", "z": z, "vk": "generic" if inp == "emb" else "monotone"}
                    for ov in vs:
                        if ov in z:
                            continue
                        yield {"circ": circ, "mode": "evidence", "z": z, "obs": {str(ov): 0.7 if inp == "gau" else 1}, "vk": "monotone"}


def pipeline_of(case):
    spec = pools.spec_from(case["circ"])
    if spec is None:
        return None, None
    m = case["mode"]
    if m == "single":
        return {"circuits": [spec], "ops": [{"op": "integrate", "args": [0], "scope": case["z"]}]}, [1]
    if m == "twostep":
        return {"circuits": [spec], "ops": [
            {"op": "integrate", "args": [0], "scope": case["z"]},
            {"op": "integrate", "args": [1], "scope": case["z2"]},
            {"op": "integrate", "args": [0], "scope": sorted(case["z"] + case["z2"])},
        ]}, [2, 3]
    if m == "pair-int":
        spec2 = pools.spec_from(case["circ2"])
        return {"circuits": [spec, spec2], "ops": [{"op": "multiply", "args": [0, 1]}, {"op": "integrate", "args": [2], "scope": case["z"]}]}, [3]
    if m == "square":
        return {"circuits": [spec], "ops": [{"op": "multiply", "args": [0, 0]}, {"op": "integrate", "args": [1], "scope": case["z"]}]}, [2]
    if m == "evidence":
        return {"circuits": [spec], "ops": [{"op": "evidence", "args": [0], "obs": case["obs"]}, {"op": "integrate", "args": [1], "scope": case["z"]}]}, [2]
    raise ValueError(m)


def run_case(case):
    seed = int(os.environ.get("VERIF_SEED", "0"))
    pspec, targets = pipeline_of(case)
    if pspec is None:
        return {"status": "skip", "nontrivial": False}
    r = check_pipeline(pspec, targets, vk=case["vk"], seed=seed, max_rows=16)
    dims = {"inp": "mixed" if case["circ"].get("mixed") else case["circ"]["inp"], "prod": case["circ"]["prod"], "style": case["circ"]["style"],
            "mode": case["mode"], "zsize": len(case["z"]), "numbering": case["circ"]["numbering"]}
    if r["status"] == "refused":
        # documented refusals: no integration rule for Binomial inputs; multiply refusing a non-structured operand
        ok_refusal = case["circ"]["inp"].startswith("bin") or r["refusal"].endswith(":multiply")
        if not ok_refusal:
            return {"status": "violation", "nontrivial": False, "dims": dims,
                    "violations": [{"sig": {"kind": "unexpected-refusal", "refusal": r["refusal"], "inp": dims["inp"], "mode": case["mode"]},
                                    "detail": f"integrate refused a smooth decomposable circuit with integrable inputs: {r['refusal']}"}]}
        return {"status": "refused", "refusal": r["refusal"], "nontrivial": False, "dims": dims}
    out = {"status": r["status"], "nontrivial": r["counters"].get("compared", 0) > 0, "counters": r["counters"],
           "evaluations": max(1, r["counters"].get("configs", 0)), "dims": dims,
           "outcome": f"{case['mode']}:{len(case['z'])}:{r.get('rows')}", "summary": f"{r['counters']}"}
    if r["violations"]:
        out["violations"] = [dict(v, case=case) for v in collapse(r["violations"])]
    return out
