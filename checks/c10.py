"""C10 - derived circuits share parameters with their operands at all times (E2)."""
from __future__ import annotations

import copy
import os

import numpy as np
import torch

from mc import alphabet as A
from mc import bfs, cdl, pools, ref
from mc.harness import Compiled, circuit_tensor_params, close, maxdiff
from mc.oracle import Pipeline

PROPERTY = "C10"
LEVEL = "model_checking"
RULE = (
    "per (base circuit, semiring, fold, optimize): the operand and its derived circuits {integrate(c), integrate(c, Z), c*c, "
    "integrate(c*c), evidence(c), conjugate(c), differentiate(c) (polynomial bases), concatenate([c, c*c])} are compiled once in "
    "one compiler; BFS over all histories up to the depth bound of the events {U0, U1: in-place update of one operand tensor, "
    "OPT: one SGD step through a derived circuit, R: operand.reset_parameters(), L: load_state_dict(initial snapshot), "
    "RD: derived.reset_parameters()}; every history is replayed on freshly compiled objects; invariant in every state: every "
    "derived circuit equals its definitional oracle evaluated at the parameter values read back from the operand's tensors "
    "through the registry, and has no learnable tensor of its own; every state is evaluated with and without autograd, and a subset of "
    "configurations runs with all compiled circuits in evaluation mode (module.eval(), evaluated once before the history). State key = rounded bytes of all operand tensors"
)
ASSUMPTIONS = ["updates are deterministic (fixed deltas / seeded resets), so a history determines the state",
               "lse-sum only on bases whose parameterisation is positive for any raw values (logits inputs, exp weights)"]
BOUNDS = {"quick": {"depth": 2, "bases": 8}, "thorough": {"depth": 3, "bases": 12}}
CHUNK = 1

BASES = [
    dict(tree=("P", [0, 1]), prod="had", style="cpt", nary="dense", kin=2, ksum=2, kout=1, inp="emb", numbering="id"),
    dict(tree=("P", [0, 1]), prod="kro", style="cpt", nary="dense", kin=2, ksum=2, kout=1, inp="cat-logits", numbering="h8", sumw="exp"),
    dict(tree=("M", [[0, 1], [1, 0]]), prod="had", style="cpt", nary="mixing", kin=2, ksum=2, kout=1, inp="emb", numbering="id"),
    dict(tree=("P", [("P", [0, 1]), 2]), prod="had", style="cp", nary="dense", kin=2, ksum=2, kout=1, inp="cat-logits", numbering="gap", sumw="exp"),
    dict(tree=("P", [0, 1]), prod="had", style="cpt", nary="dense", kin=2, ksum=2, kout=1, inp="poly2", numbering="h8"),
    dict(tree=("P", [0, 1]), prod="had", style="cpt", nary="dense", kin=2, ksum=2, kout=1, inp="gau", numbering="id", sumw="exp"),
    dict(tree=("P", [0, 1, 2]), prod="kro", style="cpt", nary="dense", kin=1, ksum=2, kout=2, inp="emb", numbering="h9", outputs="two"),
    dict(tree=0, prod="had", style="cpt", nary="dense", kin=2, ksum=2, kout=1, inp="cat-softmax", numbering="id", sumw="softmax"),
    dict(tree=("M", [[("P", [0, 1]), 2], [("P", [0, 1]), 2]]), prod="had", style="cpt", nary="dense", kin=2, ksum=2, kout=1, inp="emb", numbering="id"),
    dict(tree=("P", [0, 1]), prod="kro", style="sumsum", nary="dense", kin=2, ksum=2, kout=1, inp="emb", numbering="id"),
    dict(tree=("P", [0, 1]), prod="had", style="plain", nary="dense", kin=2, ksum=2, kout=1, inp="gau-lp", numbering="id"),
    dict(tree=("P", [("P", [0, 2]), 1]), prod="had", style="cpt", nary="dense", kin=2, ksum=2, kout=1, inp="poly1", numbering="h16"),
]

EVENTS = ["U0", "U1", "OPT", "R", "L", "RD"]


def configs_for(base):
    pos = base.get("sumw") in ("exp", "softmax") and base["inp"] in ("cat-logits", "cat-softmax", "gau")
    out = []
    for fold, optimize in ((False, False), (True, False), (False, True), (True, True)):
        out.append(("sum-product", fold, optimize))
    out.append(("complex-lse-sum", True, True))
    if pos:
        out.append(("lse-sum", True, True))
        out.append(("lse-sum", False, False))
    return out


ORDER = [0, 1, 2, 10, 4, 5, 6, 3, 7, 8, 9, 11]  # quick uses the first 8: incl. Gaussian with explicit log-partition


def cases(tier, seed):
    for bi in ORDER[: BOUNDS[tier]["bases"]]:
        for semiring, fold, optimize in configs_for(BASES[bi]):
            yield {"base": bi, "semiring": semiring, "fold": fold, "optimize": optimize, "depth": BOUNDS[tier]["depth"]}
    # the same histories with every compiled circuit in evaluation mode (nn.Module.eval()) and evaluated once beforehand
    for bi in ORDER[: (2 if tier == "quick" else 6)]:
        for semiring, fold, optimize in [("sum-product", True, True), ("sum-product", False, False)]:
            yield {"base": bi, "semiring": semiring, "fold": fold, "optimize": optimize, "depth": BOUNDS[tier]["depth"], "mode": "eval"}


def pipeline_spec(base):
    spec = pools.spec_from(base)
    vs = pools.var_ids(pools.tt(base["tree"]), base["numbering"])
    inp = base["inp"]
    cont = inp.startswith(("gau", "poly"))
    ops, targets = [], []
    if not inp.startswith("poly"):
        ops.append({"op": "integrate", "args": [0]}); targets.append(len(ops))
        if len(vs) > 1:
            ops.append({"op": "integrate", "args": [0], "scope": vs[:1]}); targets.append(len(ops))
    ops.append({"op": "multiply", "args": [0, 0]}); sq = len(ops); targets.append(sq)
    if not inp.startswith("poly") and not (cont and len(vs) > 2):
        ops.append({"op": "integrate", "args": [sq]}); targets.append(len(ops))
    ops.append({"op": "evidence", "args": [0], "obs": {str(vs[-1]): 0.4 if cont else 1}}); targets.append(len(ops))
    ops.append({"op": "conjugate", "args": [0]}); targets.append(len(ops))
    if inp.startswith("poly"):
        ops.append({"op": "differentiate", "args": [0], "order": 1}); targets.append(len(ops))
    ops.append({"op": "concatenate", "args": [0, 0]}); targets.append(len(ops))
    return {"circuits": [spec], "ops": ops}, targets


_ORACLE_CACHE = {}


class World:
    """Freshly compiled operand + derived circuits for one configuration."""

    def __init__(self, case, seed):
        base = BASES[case["base"]]
        pspec, self.targets = pipeline_spec(base)
        self.pipe = Pipeline(pspec)
        self.case = case
        self.cc = Compiled(self.pipe.circuits, case["semiring"], case["fold"], case["optimize"], compile_only=[0] + self.targets)
        self.val0 = cdl.valuation(self.pipe.roles, "monotone" if case["semiring"] == "lse-sum" else "generic", seed)
        if case["semiring"] == "lse-sum" or base["inp"].startswith(("gau", "cat")):
            self.val0 = cdl.valuation(self.pipe.roles, "monotone", seed)
        self.cc.bind(self.val0)
        self.operand = self.cc.cc(self.pipe.circuits[0])
        if case.get("mode") == "eval":
            # every compiled circuit is put in evaluation mode and evaluated once BEFORE the history starts, so that anything
            # memoised in evaluation mode is warm when the first update arrives
            for t in [0] + self.targets:
                self.cc.cc(self.pipe.circuits[t]).eval()
        self.snapshot0 = copy.deepcopy(self.operand.state_dict())
        self.tensors = [t for t in circuit_tensor_params(self.pipe.circuits[0]) if t in self.pipe.roles]
        self.nvars = cdl.max_var(self.pipe.circuits) + 1
        dom = self.pipe.domains()
        self.rows = {}
        base_inp = base["inp"]
        grid = (0.2, 0.9, 1.5) if base_inp.startswith("poly") else (-0.7, 0.3, 1.2)
        for t in [0] + self.targets:
            sv = self.pipe.scope(t)
            self.rows[t] = ref.assignments({v: dom[v] for v in sv}, cont_grid=grid, max_rows=6) if sv else [{}]
        self.n_resets = 0
        if case.get("mode") == "eval":
            for t in [0] + self.targets:
                self.cc.evaluate(self.pipe.circuits[t], self.rows[t], self.nvars)

    def apply(self, ev):
        cc = self.cc
        if ev in ("U0", "U1"):
            i = 0 if ev == "U0" else len(self.tensors) - 1
            t = self.tensors[i]
            tp, idx = cc.slot(t)
            with torch.no_grad():
                delta = torch.linspace(0.05, 0.15, tp._ptensor.data[idx].numel()).reshape(tp._ptensor.data[idx].shape)
                tp._ptensor.data[idx] += delta.to(tp._ptensor.dtype) * (1 if ev == "U0" else -1)
        elif ev == "OPT":
            params = [p for p in self.operand.parameters() if p.requires_grad]
            for p in params:
                p.grad = None
            derived = cc.cc(self.pipe.circuits[self.targets[0]])
            rows = self.rows[self.targets[0]]
            y = derived(cc.batch_tensor(rows, self.nvars)) if self.pipe.scope(self.targets[0]) else derived()
            x0 = cc.batch_tensor(self.rows[0], self.nvars)
            loss = y.real.sum() if y.is_complex() else y.sum()
            y0 = self.operand(x0)
            loss = loss - 0.5 * (y0.real.sum() if y0.is_complex() else y0.sum())
            loss.backward()
            with torch.no_grad():
                for p in params:
                    if p.grad is not None:
                        g = torch.nan_to_num(p.grad)
                        p -= 0.03 * g / (1.0 + g.abs().max())
        elif ev == "R":
            self.n_resets += 1
            torch.manual_seed(1000 + self.n_resets)
            self.operand.reset_parameters()
            # keep the state inside the domain where the reference and the semiring are defined
            self._sanitize()
        elif ev == "L":
            self.operand.load_state_dict(self.snapshot0)
        elif ev == "RD":
            for t in self.targets:
                self.cc.cc(self.pipe.circuits[t]).reset_parameters()
        else:
            raise ValueError(ev)

    def _sanitize(self):
        """After a random re-initialisation some roles need admissible values (positive stddev, probabilities): map
        the freshly drawn values into the role's range, in place, through the registry."""
        with torch.no_grad():
            for t in self.tensors:
                role = self.pipe.roles[t]
                tp, idx = self.cc.slot(t)
                d = tp._ptensor.data[idx]
                if role == "stddev":
                    d.copy_(0.6 + 0.8 * torch.sigmoid(d))
                elif role in ("probs",):
                    d.copy_(torch.softmax(d, dim=-1))
                elif role == "bprobs":
                    d.copy_(0.15 + 0.7 * torch.sigmoid(d))
                elif self.case["semiring"] == "lse-sum" and role in ("w", "emb", "value", "coeff"):
                    d.copy_(0.3 + d.abs())

    def current_valuation(self):
        return {t: self.cc.read(t) for t in self.pipe.roles if self.cc.compiler.state.has_compiled_parameter(t)}

    def key(self):
        h = []
        for t in self.tensors:
            h.append(np.round(self.cc.read(t), 9).tobytes())
        return hash(b"".join(h))

    def touch(self):
        """Evaluate every compiled circuit once with and once without autograd (a user evaluating between updates)."""
        for t in [0] + self.targets:
            sc = self.pipe.circuits[t]
            try:
                self.cc.evaluate(sc, self.rows[t], self.nvars)
                with torch.no_grad():
                    self.cc.evaluate(sc, self.rows[t], self.nvars)
            except Exception:  # noqa - reported by the invariant of the final state
                pass

    def invariant(self, no_grad=False):
        if no_grad:
            with torch.no_grad():
                return [(m + " [evaluated under torch.no_grad()]", dict(s, mode="no_grad")) for m, s in self.invariant()]
        probs = []
        val = ref.with_cache(self.current_valuation())
        op_ids = {id(p) for p in self.operand.parameters()}
        for t in [0] + self.targets:
            sc = self.pipe.circuits[t]
            tc = self.cc.cc(sc)
            if t != 0:
                own = [n for n, p in tc.named_parameters() if p.requires_grad and id(p) not in op_ids]
                if own:
                    probs.append((f"derived circuit {self.pipe.op_of(t)} has its own learnable tensors {own[:3]}",
                                  {"kind": "new-learnable-tensor", "op": self.pipe.op_of(t)["op"]}))
            try:
                got = self.cc.evaluate(sc, self.rows[t], self.nvars)
            except Exception as e:  # noqa
                probs.append((f"evaluating {self.pipe.op_of(t)} raised {type(e).__name__}: {e}", {"kind": "exception", "op": (self.pipe.op_of(t) or {"op": "operand"})["op"]}))
                continue
            ck = (self.case["base"], self.case.get("frozen"), t, self.key())
            if ck not in _ORACLE_CACHE:  # the oracle depends on the base and the current parameter values only
                if len(_ORACLE_CACHE) > 4000:
                    _ORACLE_CACHE.clear()
                _ORACLE_CACHE[ck] = np.stack([self.pipe.value(t, val, r) for r in self.rows[t]])
            exp = _ORACLE_CACHE[ck]
            cont_int = self.pipe.op_of(t) is not None and any(d[0] == "cont" for d in self.pipe.domains().values()) and "integrate" in str(self.pipe.ops)
            if not close(got, exp, rtol=1e-6 if cont_int else 1e-8):
                opn = (self.pipe.op_of(t) or {"op": "operand"})["op"]
                probs.append((f"{opn} (circuit {t}) no longer satisfies its defining relation: max|diff|={maxdiff(got, exp):.3e} got={got.reshape(-1)[:3]} exp={exp.reshape(-1)[:3]}",
                              {"kind": "relation-broken", "op": opn}))
        return probs


def replay_factory(case, seed):
    def replay(hist):
        w = World(case, seed)
        problems = w.invariant()
        last_ev = None
        w.touch()
        for i, ev in enumerate(hist):
            w.apply(ev)
            last_ev = ev
            if i < len(hist) - 1:
                w.touch()  # "interleaved with evaluations": every intermediate state is evaluated as well
                continue
            problems = w.invariant() + w.invariant(no_grad=True)
        problems = [(m, dict(s, after=last_ev or "init")) for m, s in problems]
        return hist, w.key(), problems

    return replay


def run_case(case):
    seed = int(os.environ.get("VERIF_SEED", "0"))
    if "history" in case:
        _, _, probs = replay_factory(case, seed)(case["history"])
        if probs:
            return {"status": "violation", "nontrivial": True, "violations": [{"sig": probs[0][1], "detail": probs[0][0], "case": case}], "sig": probs[0][1], "detail": probs[0][0]}
        return {"status": "ok", "nontrivial": True}
    res = bfs.explore(lambda: [], lambda m: EVENTS, replay_factory(case, seed), case["depth"], isolate=False)
    out = {"status": "violation" if res.violations else "ok", "nontrivial": res.states > 1, "nontrivial_n": max(0, res.states - 1),
           "states": res.states, "transitions": res.transitions, "traces": res.replays, "evaluations": res.transitions,
           "dims": {"base": case["base"], "cfg": f"{case['semiring']}/{case['fold']}/{case['optimize']}", "mode": case.get("mode", "train")},
           "outcome": f"{res.states}", "summary": f"states={res.states} transitions={res.transitions} e.g. {res.sample_histories[:1]}"}
    if res.violations:
        out["violations"] = [{"sig": sig, "detail": msg, "case": dict(case, history=hist)} for hist, msg, sig in res.violations]
    return out
