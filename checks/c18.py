"""C18 - compiler registry and pipeline context stay coherent over any call history (E2)."""
from __future__ import annotations

import os

import numpy as np
import torch

import cirkit.pipeline as PL
from cirkit.backend.torch.compiler import TorchCompiler
from cirkit.pipeline import PipelineContext
from cirkit.symbolic import functional as SF
from cirkit.symbolic.circuit import CircuitOperator
from cirkit.symbolic.registry import OPERATOR_REGISTRY

from mc import bfs, cdl, pools, ref
from mc.harness import bind_compiler, circuit_tensor_params

PROPERTY = "C18"
LEVEL = "model_checking"
RULE = (
    "explicit-state BFS over all histories (up to the depth bound) of the events {enter A, enter B, exit, exit with an "
    "escaping exception, compile c0, compile c1 (module-level, current context), compile c0 with ctx=A, integrate(cc0), "
    "multiply(cc0, cc1), conjugate(cc0), concatenate(cc0, cc1), compile a derived circuit before its operands (the chain "
    "integrate(c0*c0) and the DAG c0*(c0*c1) whose shared operand is listed before its deeper user), each followed by a value check "
    "against the operands compiled in the same context}; every transition calls the real API on fresh real "
    "objects (whole history replayed inside contextvars.copy_context()), a Python reference model (stack of contexts + "
    "per-context compiled maps + compile log) is stepped in lockstep and the invariant is evaluated in every state. "
    "State key = (context stack, per-context set of compiled circuits)"
)
ASSUMPTIONS = ["re-entering a context object that is already active is not generated (excluded by the property)",
               "two distinct context objects A, B besides the process-wide default context"]
BOUNDS = {"quick": {"depth": 5, "configs": 4}, "thorough": {"depth": 7, "configs": 8}}
CHUNK = 1

# ------------------------------------------------------------------ compile log (monkey patch, harness process only)
_LOG = []
_orig_compile_circuit = TorchCompiler._compile_circuit


def _logged_compile_circuit(self, sc):
    _LOG.append((id(self), id(sc)))
    return _orig_compile_circuit(self, sc)


TorchCompiler._compile_circuit = _logged_compile_circuit

CONFIGS = [
    ({"semiring": "sum-product", "fold": False, "optimize": False}, {"semiring": "lse-sum", "fold": True, "optimize": True}),
    ({"semiring": "lse-sum", "fold": True, "optimize": False}, {"semiring": "sum-product", "fold": False, "optimize": True}),
    ({"semiring": "sum-product", "fold": True, "optimize": True}, {"semiring": "sum-product", "fold": True, "optimize": True}),
    ({"semiring": "complex-lse-sum", "fold": False, "optimize": True}, {"semiring": "lse-sum", "fold": False, "optimize": False}),
    ({"semiring": "lse-sum", "fold": False, "optimize": False}, {"semiring": "complex-lse-sum", "fold": True, "optimize": False}),
    ({"semiring": "sum-product", "fold": True, "optimize": False}, {"semiring": "complex-lse-sum", "fold": True, "optimize": True}),
    ({"semiring": "lse-sum", "fold": True, "optimize": True}, {"semiring": "lse-sum", "fold": True, "optimize": True}),
    ({"semiring": "complex-lse-sum", "fold": True, "optimize": True}, {"semiring": "sum-product", "fold": False, "optimize": False}),
]

EVENTS = ["enterA", "enterB", "exit", "exit-raise", "compile c0", "compile c1", "compileA c0", "integrate", "multiply", "conjugate", "concatenate", "derived-first", "dag-first"]


def cases(tier, seed):
    # one search per configuration, sharded over the workers by its first event (the union over all first events enabled
    # in the initial state is the whole search; the empty history itself is checked by every shard's replay of its prefix)
    for i in range(BOUNDS[tier]["configs"]):
        yield {"config": i, "depth": 0, "prefix": []}  # the initial state itself
        for ev in enabled(initial()):
            yield {"config": i, "depth": BOUNDS[tier]["depth"], "prefix": [ev]}


# ------------------------------------------------------------------ model


def initial():
    return {"stack": [], "compiled": {"D": [], "A": [], "B": []}}


def top(m):
    return m["stack"][-1] if m["stack"] else "D"


def enabled(m):
    evs = []
    if "A" not in m["stack"]:
        evs.append("enterA")
    if "B" not in m["stack"]:
        evs.append("enterB")
    if m["stack"]:
        evs += ["exit", "exit-raise"]
    evs += ["compile c0", "compile c1", "compileA c0", "derived-first", "dag-first"]
    anywhere = set().union(*[set(v) for v in m["compiled"].values()])
    if "c0" in anywhere:
        evs += ["integrate", "conjugate"]
    if "c0" in anywhere and "c1" in anywhere:
        evs += ["multiply", "concatenate"]
    return evs


def key_of(m):
    return (tuple(m["stack"]), tuple((k, tuple(sorted(v))) for k, v in sorted(m["compiled"].items())))


OPERANDS = {"int0": ["c0"], "mul01": ["c0", "c1"], "sq0": ["c0"], "d": ["sq0"], "q": ["c0", "c1"], "r": ["c0", "q"]}


def closure(name):
    out = []
    for o in OPERANDS.get(name, []):
        out += closure(o)
    return out + [name]


# ------------------------------------------------------------------ replay on the real objects

_DEFAULT_CTX = PL._PIPELINE_CONTEXT.get()
_DEFAULT_REG = OPERATOR_REGISTRY.get()


def make_real(cfg_idx):
    ca, cb = CONFIGS[cfg_idx]
    circ = dict(tree=("P", [0, 1]), prod="had", style="cpt", nary="dense", kin=2, ksum=2, kout=1, inp="cat-logits", numbering="id")
    s0, roles0 = cdl.build_circuit(pools.spec_from(circ))
    s1, roles1 = cdl.build_circuit(pools.spec_from(dict(circ, kin=1, ksum=1)))
    sq0 = SF.multiply(s0, s0)
    q = SF.multiply(s0, s1)
    sym = {"c0": s0, "c1": s1, "sq0": sq0, "d": SF.integrate(sq0), "q": q, "r": SF.multiply(s0, q)}
    # a fresh "process-wide default" context per replay (the replay runs inside contextvars.copy_context(), so this set() is
    # local to it): reusing the module's default object would accumulate the compiled circuits of every replayed history
    dctx = PipelineContext.from_default_backend()
    PL._PIPELINE_CONTEXT.set(dctx)
    return {"ctx": {"A": PipelineContext(backend="torch", **ca), "B": PipelineContext(backend="torch", **cb), "D": dctx},
            "flags": {"A": ca, "B": cb, "D": {"semiring": "lse-sum", "fold": True, "optimize": True}},
            "sym": sym, "cc": {}, "roles": {**roles0, **roles1}}


def replay_factory(cfg_idx):
    def replay(hist):
        del _LOG[:]
        real = make_real(cfg_idx)
        m = initial()
        problems = check_invariant(real, m, None)
        for i, ev in enumerate(hist):
            last = i == len(hist) - 1
            try:
                step_problems = step(real, m, ev)
            except Exception as e:  # the real API raised on an event the model allows
                step_problems = [(f"event {ev} raised {type(e).__name__}: {e}", {"kind": "event-raised", "event": _ek(ev), "exc": type(e).__name__})]
            inv = check_invariant(real, m, ev)
            if last:
                problems = step_problems + inv
            elif step_problems or inv:
                # an earlier prefix already violates: report it at the prefix (BFS never extends violating states,
                # so this only happens if behaviour is not deterministic)
                problems = [(f"non-deterministic replay: prefix {hist[:i + 1]} now violates: {(step_problems + inv)[0][0]}", {"kind": "nondeterministic-replay"})]
                break
        return m, key_of(m), problems

    return replay


def _compile_in(real, m, ctxname, name, via):
    """via: 'module' (pipeline.compile with current context) or 'explicit' (ctx=...)"""
    sc = real["sym"][name]
    ctx = real["ctx"][ctxname]
    cc = PL.compile(sc) if via == "module" else PL.compile(sc, ctx=ctx)
    probs = []
    for n in closure(name):
        if n not in m["compiled"][ctxname]:
            m["compiled"][ctxname].append(n)
    prev = real["cc"].get((ctxname, name))
    if prev is not None and prev is not cc:
        probs.append((f"compiling {name} again in context {ctxname} returned a different object", {"kind": "recompiled", "event": "compile"}))
    real["cc"][(ctxname, name)] = cc
    for n in closure(name):
        if (ctxname, n) not in real["cc"]:
            real["cc"][(ctxname, n)] = ctx.get_compiled_circuit(real["sym"][n])
    return probs


def step(real, m, ev):
    probs = []
    cur = top(m)
    if ev in ("enterA", "enterB"):
        n = ev[-1]
        r = real["ctx"][n].__enter__()
        if r is not real["ctx"][n]:
            probs.append(("__enter__ did not return the context", {"kind": "enter-return"}))
        m["stack"].append(n)
    elif ev == "exit":
        n = m["stack"].pop()
        real["ctx"][n].__exit__(None, None, None)
    elif ev == "exit-raise":
        n = m["stack"].pop()
        exc = RuntimeError("escaping")
        r = real["ctx"][n].__exit__(RuntimeError, exc, None)
        if r:
            probs.append(("__exit__ swallowed the escaping exception", {"kind": "exception-swallowed"}))
    elif ev in ("compile c0", "compile c1"):
        probs += _compile_in(real, m, cur, ev[-2:], "module")
    elif ev == "compileA c0":
        probs += _compile_in(real, m, "A", "c0", "explicit")
    elif ev == "derived-first":
        probs += _compile_in(real, m, cur, "d", "module")
        probs += derived_value_check(real, cur, "d")
    elif ev == "dag-first":
        probs += _compile_in(real, m, cur, "r", "module")
        probs += derived_value_check(real, cur, "r")
    elif ev in ("integrate", "multiply", "conjugate", "concatenate"):
        names = ["c0"] if ev in ("integrate", "conjugate") else ["c0", "c1"]
        ccs, known = [], True
        for n in names:
            if n in m["compiled"][cur]:
                ccs.append(real["cc"][(cur, n)])
            else:
                known = False
                other = next(c for c in ("D", "A", "B") if n in m["compiled"][c])
                ccs.append(real["cc"][(other, n)])
        try:
            res = {"integrate": lambda: PL.integrate(ccs[0]), "multiply": lambda: PL.multiply(ccs[0], ccs[1]),
                   "conjugate": lambda: PL.conjugate(ccs[0]), "concatenate": lambda: PL.concatenate(ccs[0], ccs[1])}[ev]()
            err = None
        except Exception as e:  # noqa
            res, err = None, e
        if not known:
            if err is None or not isinstance(err, ValueError):
                probs.append((f"{ev} on a circuit compiled in another context: expected ValueError, got {type(err).__name__ if err else 'a result'}",
                              {"kind": "foreign-circuit-accepted", "event": ev}))
            return probs
        if err is not None:
            probs.append((f"{ev} on circuits known in the current context raised {type(err).__name__}: {err}", {"kind": "operator-raised", "event": ev}))
            return probs
        ctx = real["ctx"][cur]
        # each call builds a new symbolic circuit, so a new compiled circuit is legitimate; check its registration
        if not ctx.has_symbolic(res):
            probs.append((f"result of {ev} is not registered in the current context", {"kind": "operator-result-unregistered", "event": ev}))
            return probs
        ssym = ctx.get_symbolic_circuit(res)
        want_op = {"integrate": CircuitOperator.INTEGRATION, "multiply": CircuitOperator.MULTIPLICATION,
                   "conjugate": CircuitOperator.CONJUGATION, "concatenate": CircuitOperator.CONCATENATE}[ev]
        want_operands = tuple(real["sym"][n] for n in names)
        if ssym.operation is None or ssym.operation.operator != want_op or tuple(ssym.operation.operands) != want_operands:
            probs.append((f"symbolic circuit of the {ev} result has operation {ssym.operation}", {"kind": "operator-result-symbolic", "event": ev}))
        if ctx.get_compiled_circuit(ssym) is not res:
            probs.append((f"registry is not a bijection for the {ev} result", {"kind": "bijection", "event": ev}))
        probs += numeric_check(real, cur, ev, res, names)
    return probs


def derived_value_check(real, cur, name):
    """d = sum_x c0(x)^2 and r = c0(x)^2 c1(x), computed from the operands compiled in the same context."""
    ctx = real["ctx"][cur]
    semiring = real["flags"][cur]["semiring"]
    bind_compiler(ctx._compiler, cdl.valuation(real["roles"], "monotone", int(os.environ.get("VERIF_SEED", "0"))))
    dom = ref.var_domains(real["sym"]["c0"])
    x = torch.tensor([[i, j] for i in range(dom[0][1]) for j in range(dom[1][1])])

    def lin(y):
        y = y.detach()
        return y if semiring == "sum-product" else torch.exp(y)

    c0 = lin(real["cc"][(cur, "c0")](x)).to(torch.complex128)
    got = lin(real["cc"][(cur, name)]() if name == "d" else real["cc"][(cur, name)](x)).to(torch.complex128)
    if name == "d":
        want = (c0 ** 2).sum(dim=0, keepdim=True)
        got = got.reshape(want.shape) if got.numel() == want.numel() else got
    else:
        want = c0 ** 2 * lin(real["cc"][(cur, "c1")](x)).to(torch.complex128)
    if got.shape != want.shape or not torch.allclose(got, want, rtol=1e-9, atol=1e-12):
        return [(f"compiled derived circuit {name} differs from its definition on the operands compiled in the same context: "
                 f"{got.reshape(-1)[:3]} vs {want.reshape(-1)[:3]}", {"kind": "derived-value", "name": name})]
    return []


def numeric_check(real, cur, ev, res, names):
    """The operator result equals compiling the symbolic operator result in a fresh compiler."""
    flags = real["flags"][cur]
    ctx = real["ctx"][cur]
    comp = ctx._compiler
    fresh = TorchCompiler(**flags)
    syms = [real["sym"][n] for n in names]
    sres = {"integrate": lambda: SF.integrate(syms[0]), "multiply": lambda: SF.multiply(syms[0], syms[1]),
            "conjugate": lambda: SF.conjugate(syms[0]), "concatenate": lambda: SF.concatenate(syms)}[ev]()
    fc = fresh.compile(sres)
    val = cdl.valuation(real["roles"], "monotone", int(os.environ.get("VERIF_SEED", "0")))
    bind_compiler(comp, val)
    bind_compiler(fresh, val)
    if ev == "integrate":
        y1, y2 = res(), fc()
    else:
        x = torch.tensor([[0, 1], [1, 2], [1, 0]])
        y1, y2 = res(x), fc(x)
    if not bool(torch.all(torch.isfinite(y2.real if y2.is_complex() else y2))):
        raise RuntimeError("harness: reference compilation produced non-finite values")
    if y1.shape != y2.shape or not torch.allclose(y1, y2, rtol=1e-9, atol=1e-12):
        return [(f"{ev} on compiled circuits differs from compiling the symbolic {ev}: {y1.reshape(-1)[:4]} vs {y2.reshape(-1)[:4]}",
                 {"kind": "operator-result-value", "event": ev})]
    return []


def check_invariant(real, m, ev):
    probs = []
    t = top(m)
    want_ctx = real["ctx"][t]
    got = PL._PIPELINE_CONTEXT.get()
    if got is not want_ctx:
        probs.append((f"active pipeline context is not the model's top of stack ({t}) after {ev}", {"kind": "context-not-restored", "event": _ek(ev)}))
    want_reg = _DEFAULT_REG if t == "D" else want_ctx._op_registry
    if OPERATOR_REGISTRY.get() is not want_reg:
        probs.append((f"active operator registry is not the one of context {t} after {ev}", {"kind": "registry-not-restored", "event": _ek(ev)}))
    for cname, ctx in real["ctx"].items():
        for sname, sc in real["sym"].items():
            should = sname in m["compiled"][cname]
            if ctx.is_compiled(sc) != should:
                probs.append((f"context {cname}: is_compiled({sname}) = {ctx.is_compiled(sc)}, model says {should}", {"kind": "is-compiled", "event": _ek(ev)}))
                continue
            if should:
                cc = ctx.get_compiled_circuit(sc)
                if (cname, sname) in real["cc"] and real["cc"][(cname, sname)] is not cc:
                    probs.append((f"context {cname}: compiled object of {sname} changed", {"kind": "recompiled", "event": _ek(ev)}))
                if not ctx.has_symbolic(cc) or ctx.get_symbolic_circuit(cc) is not sc or ctx[sc] is not cc:
                    probs.append((f"context {cname}: the symbolic/compiled association of {sname} is not a bijection", {"kind": "bijection", "event": _ek(ev)}))
                for other, octx in real["ctx"].items():
                    if other != cname and octx.has_symbolic(cc):
                        probs.append((f"circuit compiled in {cname} is known in {other}", {"kind": "isolation", "event": _ek(ev)}))
    # compile log: exactly once per (context, circuit), operands first
    seen = {}
    for pos, (cid, sid) in enumerate(_LOG):
        if (cid, sid) in seen:
            probs.append(("a symbolic circuit was compiled twice in one context", {"kind": "compiled-twice", "event": _ek(ev)}))
        seen[(cid, sid)] = pos
    for cname, ctx in real["ctx"].items():
        cid = id(ctx._compiler)
        for sname in m["compiled"][cname]:
            sid = id(real["sym"][sname])
            if (cid, sid) not in seen:
                probs.append((f"{sname} marked compiled in {cname} but _compile_circuit never ran for it", {"kind": "compile-log", "event": _ek(ev)}))
                continue
            for o in OPERANDS.get(sname, []):
                oid = id(real["sym"][o])
                if (cid, oid) not in seen or seen[(cid, oid)] > seen[(cid, sid)]:
                    probs.append((f"operand {o} was not compiled before {sname} in {cname}", {"kind": "operand-order", "event": _ek(ev)}))
    return probs


def _ek(ev):
    return "init" if ev is None else ev.split(" ")[0]


def run_case(case):
    if "history" in case:  # replay artefact
        cfg = case["config"]
        import contextvars

        m, k, probs = contextvars.copy_context().run(replay_factory(cfg), case["history"])
        if probs:
            return {"status": "violation", "nontrivial": True, "violations": [{"sig": probs[0][1], "detail": probs[0][0], "case": case}], "sig": probs[0][1], "detail": probs[0][0]}
        return {"status": "ok", "nontrivial": True}
    cfg = case["config"]
    res = bfs.explore(initial, enabled, replay_factory(cfg), case["depth"], prefix=case.get("prefix"))
    out = {"status": "violation" if res.violations else "ok", "nontrivial": res.states > 1, "nontrivial_n": max(0, res.states - 1),
           "states": res.states, "transitions": res.transitions, "traces": res.replays, "evaluations": res.transitions,
           "counters": {f"used:{cfg}:{e}": 1 for e in res.events_used}, "dims": {"config": cfg, "depth_reached": res.max_depth, "first": str((case.get("prefix") or ["-"])[0])},
           "outcome": f"{res.states}", "summary": f"states={res.states} transitions={res.transitions} e.g. {res.sample_histories[:1]}"}
    if res.violations:
        out["violations"] = [{"sig": sig, "detail": msg, "case": {"config": cfg, "history": hist}} for hist, msg, sig in res.violations]
    return out


def finalize(agg):
    cfgs = {k.split(":")[1] for k in agg["counters"] if k.startswith("used:")}
    missing = [f"{c}:{e}" for c in sorted(cfgs) for e in EVENTS if not agg["counters"].get(f"used:{c}:{e}")]
    if missing and not agg["status"].get("violation"):
        return [f"not every event of the alphabet was used in every configuration: missing {missing[:6]}"]
    return []
