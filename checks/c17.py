"""C17 - parameter initialisation follows the symbolic initialiser regardless of folding (E2)."""
from __future__ import annotations

import itertools
import os

import numpy as np
import torch

from cirkit.backend.torch.compiler import TorchCompiler
from cirkit.symbolic import layers as L
from cirkit.symbolic import parameters as P
from cirkit.symbolic.circuit import Circuit
from cirkit.symbolic.dtypes import DataType
from cirkit.symbolic.initializers import ConstantTensorInitializer, DirichletInitializer, NormalInitializer, UniformInitializer

from mc import bfs
from mc.util import exc_sig

PROPERTY = "C17"
LEVEL = "model_checking"
RULE = (
    "configurations = (initialiser of the tensor under test: constant scalar int/float/complex, constant array incl. broadcast "
    "and integer dtype, uniform, normal, Dirichlet with scalar / list alpha and EVERY valid axis positive and negative) x shape "
    "of rank 1..3 x learnable flag x fold grouping {alone, folded with 1 or 2 siblings of the same shape that use the same or a "
    "different initialiser} x fold flag; per configuration BFS over the histories compile (reset | update)^{<=3}; invariant in "
    "every state after a compile/reset: each symbolic tensor's slice, read through the registry, satisfies its own "
    "initialiser's constraints, dtype and requires_grad; random initialisers redraw, constants are restored after an update. "
    "State key = (events, digest of constraint outcomes)"
)
ASSUMPTIONS = ["moment clause: mean/std of a 64x64 tensor within 6 sigma of the declared moments (false-alarm probability < 1e-8)",
               "tensors enter the circuit as the value of constant layers through reduce-sum nodes (rank 2, 3)"]
BOUNDS = {"quick": {"depth": 2}, "thorough": {"depth": 3}}
CHUNK = 8


def init_menu(shape):
    """JSON descriptions of initialisers admissible for the shape."""
    r = len(shape)
    out = [
        {"i": "const", "v": 3}, {"i": "const", "v": -0.75}, {"i": "const", "v": [0.5, -1.25]},  # complex as [re, im]
        {"i": "array", "how": "full"}, {"i": "array", "how": "last"}, {"i": "array", "how": "int"},
        {"i": "uniform", "a": 0.25, "b": 0.5}, {"i": "uniform", "a": -3.0, "b": -2.5},
        {"i": "normal", "m": 5.0, "s": 0.01}, {"i": "normal", "m": -2.0, "s": 0.5},
    ]
    for ax in range(-r, r):
        out.append({"i": "dirichlet", "alpha": 1.0, "axis": ax})
        out.append({"i": "dirichlet", "alpha": "list", "axis": ax})
    return out


def cases(tier, seed):
    shapes = [[2], [3], [2, 3], [3, 2], [1, 2], [2, 2, 3], [3, 1, 2]]
    for shape in shapes:
        menu = init_menu(shape)
        for ini in menu:
            for learnable in (True, False):
                if ini["i"] == "array" and ini["how"] == "int" and learnable:
                    continue
                if ini["i"] == "const" and isinstance(ini["v"], list) and not learnable and len(shape) > 1:
                    continue
                sib_menu = [None]
                sib_menu += [[ini], [{"i": "normal", "m": 0.0, "s": 1.0}], [{"i": "const", "v": 7.5}, {"i": "dirichlet", "alpha": 1.0, "axis": -1}]]
                if ini["i"] == "dirichlet":
                    r = len(shape)
                    other_ax = [a for a in range(-r, r) if a != ini["axis"]]
                    sib_menu += [[{"i": "dirichlet", "alpha": 1.0, "axis": a}] for a in other_ax[:2]]
                    sib_menu.append([{"i": "dirichlet", "alpha": 1.0, "axis": (ini["axis"] % r)}, {"i": "uniform", "a": 0.25, "b": 0.5}])
                if ini["i"] in ("const", "array"):
                    sib_menu.append([{"i": "const", "v": -1.5}])
                # siblings whose learnable flag differs from the tensor under test (same shape and dtype)
                if not (ini["i"] == "array" and ini.get("how") == "int") and not (ini["i"] == "const" and isinstance(ini["v"], list)):
                    sib_menu.append([{"i": "normal", "m": 0.0, "s": 1.0, "learnable": not learnable}])
                    sib_menu.append([{"i": "const", "v": 2.5, "learnable": not learnable}, {"i": "uniform", "a": 0.25, "b": 0.5, "learnable": learnable}])
                for sibs in sib_menu:
                    for fold in (True, False):
                        if sibs is None and fold is False and ini["i"] not in ("dirichlet", "array"):
                            pass
                        yield {"shape": shape, "init": ini, "learnable": learnable, "siblings": sibs, "fold": fold, "depth": BOUNDS[tier]["depth"]}
    # moment clause on large tensors
    for ini in [{"i": "uniform", "a": -1.0, "b": 3.0}, {"i": "normal", "m": 1.5, "s": 0.3}, {"i": "normal", "m": 0.0, "s": 2.0}]:
        for fold in (True, False):
            yield {"shape": [64, 64], "init": ini, "learnable": True, "siblings": [ini], "fold": fold, "depth": 1, "moments": True}


def make_init(desc, shape, rng_seed):
    i = desc["i"]
    if i == "const":
        v = desc["v"]
        if isinstance(v, list):
            v = complex(v[0], v[1])
        return ConstantTensorInitializer(v), (DataType.COMPLEX if isinstance(v, complex) else DataType.REAL)
    if i == "array":
        rng = np.random.default_rng(rng_seed)
        if desc["how"] == "full":
            return ConstantTensorInitializer(rng.uniform(-2, 2, size=tuple(shape))), DataType.REAL
        if desc["how"] == "last":
            return ConstantTensorInitializer(rng.uniform(-2, 2, size=(shape[-1],))), DataType.REAL
        return ConstantTensorInitializer(rng.integers(0, 5, size=tuple(shape))), DataType.INTEGER
    if i == "uniform":
        return UniformInitializer(desc["a"], desc["b"]), DataType.REAL
    if i == "normal":
        return NormalInitializer(desc["m"], desc["s"]), DataType.REAL
    if i == "dirichlet":
        ax = desc["axis"]
        if desc["alpha"] == "list":
            alpha = [0.5 + 0.5 * j for j in range(shape[ax])]
        else:
            alpha = float(desc["alpha"])
        return DirichletInitializer(alpha, axis=ax), DataType.REAL
    raise ValueError(i)


def build(case):
    """Circuit: one constant layer per tensor (the tensor under test + its siblings), summed by one sum layer."""
    shape = tuple(case["shape"])
    descs = [case["init"]] + list(case["siblings"] or [])
    tensors, layers = [], []
    for j, d in enumerate(descs):
        init, dtype = make_init(d, shape, 100 + j)
        learn = d.get("learnable", case["learnable"]) and dtype != DataType.INTEGER
        t = P.TensorParameter(*shape, initializer=init, learnable=learn, dtype=dtype)
        p = P.Parameter.from_input(t)
        while len(p.shape) > 1:
            p = P.Parameter.from_unary(P.ReduceSumParameter(p.shape, axis=len(p.shape) - 1), p)
        layers.append(L.ConstantValueLayer(shape[0], value=p))
        tensors.append((t, d, init, dtype, learn))
    s = L.SumLayer(shape[0], 1, arity=len(layers))
    return Circuit(layers + [s], {s: layers}, [s]), tensors


def check_tensor(a, t, d, init, dtype, learn, tp, prev, moments=False):
    """Constraints of one symbolic tensor's slice a (numpy)."""
    probs = []
    i = d["i"]
    want_dtype = {DataType.REAL: torch.float64, DataType.COMPLEX: torch.complex128, DataType.INTEGER: torch.int64}[dtype]
    if tp._ptensor.dtype != want_dtype:
        probs.append(("dtype", f"{tp._ptensor.dtype} instead of {want_dtype}"))
    if bool(tp._ptensor.requires_grad) != bool(learn):
        probs.append(("requires-grad", f"requires_grad={tp._ptensor.requires_grad} for learnable={learn}"))
    if tuple(a.shape) != tuple(t.shape):
        probs.append(("slice-shape", f"{a.shape} vs {t.shape}"))
        return probs
    if not np.all(np.isfinite(a)):
        probs.append(("non-finite", f"{a.reshape(-1)[:5]}"))
        return probs
    if i in ("const", "array"):
        v = init.value
        want = np.broadcast_to(np.asarray(v), t.shape)
        if not np.array_equal(a, want.astype(a.dtype)):
            probs.append(("constant-not-copied", f"slice {a.reshape(-1)[:6]} expected {want.reshape(-1)[:6]}"))
    elif i == "uniform":
        if not (np.all(a >= d["a"]) and np.all(a <= d["b"])):
            probs.append(("uniform-bounds", f"values outside [{d['a']}, {d['b']}]: {a.reshape(-1)[:6]}"))
        if moments:
            n = a.size
            m, s = (d["a"] + d["b"]) / 2, (d["b"] - d["a"]) / np.sqrt(12)
            if abs(a.mean() - m) > 6 * s / np.sqrt(n) or abs(a.std() - s) > 6 * s / np.sqrt(2 * n) * 1.5:
                probs.append(("uniform-moments", f"mean {a.mean():.4f} std {a.std():.4f} expected {m:.4f} {s:.4f}"))
    elif i == "normal":
        if moments:
            n = a.size
            if abs(a.mean() - d["m"]) > 6 * d["s"] / np.sqrt(n) or abs(a.std() - d["s"]) > 6 * d["s"] / np.sqrt(2 * n):
                probs.append(("normal-moments", f"mean {a.mean():.4f} std {a.std():.4f} expected {d['m']} {d['s']}"))
        elif np.any(np.abs(a - d["m"]) > 8 * d["s"]):
            probs.append(("normal-range", f"value further than 8 sigma from the mean: {a.reshape(-1)[:6]}"))
    elif i == "dirichlet":
        ax = d["axis"]
        if np.any(a < 0) or not np.allclose(a.sum(axis=ax), 1.0, atol=1e-9):
            probs.append(("dirichlet-axis", f"axis {ax} of shape {t.shape}: sums along the declared axis {a.sum(axis=ax).reshape(-1)[:4]}"))
    if prev is not None:
        deterministic = i == "dirichlet" and t.shape[d["axis"]] == 1
        if i in ("uniform", "normal", "dirichlet") and a.size > 1 and not deterministic and np.array_equal(prev, a):
            probs.append(("reset-did-not-redraw", "values unchanged after reset"))
    return probs


class World:
    def __init__(self, case):
        self.case = case
        torch.manual_seed(12345)
        self.circ, self.tensors = build(case)
        self.compiler = TorchCompiler(semiring="sum-product", fold=case["fold"], optimize=False)
        self.cc = self.compiler.compile(self.circ)
        self.prev = [None] * len(self.tensors)
        self.outcome = []

    def read(self, t):
        tp, idx = self.compiler.state.retrieve_compiled_parameter(t)
        return tp, tp._ptensor.data[idx].detach().numpy().copy()

    def check(self, after_reset=True):
        problems = []
        for j, (t, d, init, dtype, learn) in enumerate(self.tensors):
            tp, a = self.read(t)
            for kind, msg in check_tensor(a, t, d, init, dtype, learn, tp, self.prev[j] if after_reset else None, self.case.get("moments", False)):
                folded = tp.num_folds > 1
                problems.append((f"tensor {j} ({d}) folded={folded} (group of {tp.num_folds}): {msg}",
                                 {"kind": kind, "init": d["i"], "folded": folded}))
            self.prev[j] = a
        try:
            problems += self.grad_check()
        except Exception as e:  # noqa
            problems.append((f"backward raised {type(e).__name__}: {e}", {"kind": "grad-exception", "init": "grad", "folded": False}))
        self.outcome.append(len(problems))
        return problems

    def grad_check(self):
        """Gradients must reach exactly the learnable tensors (also inside a fold group)."""
        problems = []
        if any(dtype != DataType.REAL for (_, _, _, dtype, _) in self.tensors):
            return problems  # integer / complex constants are not evaluated through a real-valued sum layer
        y = self.cc()
        if not y.requires_grad:
            if any(l for (_, _, _, _, l) in self.tensors):
                problems.append(("output does not depend on any learnable tensor", {"kind": "requires-grad", "init": "grad", "folded": False}))
            return problems
        for p in self.cc.parameters():
            p.grad = None
        (y.real if y.is_complex() else y).sum().backward()
        for j, (t, d, init, dtype, learn) in enumerate(self.tensors):
            tp, idx = self.compiler.state.retrieve_compiled_parameter(t)
            g = tp._ptensor.grad
            if learn and g is None:
                problems.append((f"tensor {j} ({d}) is learnable but receives no gradient (group of {tp.num_folds})",
                                 {"kind": "requires-grad", "init": d["i"], "folded": tp.num_folds > 1}))
            if not learn and g is not None:
                problems.append((f"tensor {j} ({d}) is not learnable but its storage accumulates gradients (group of {tp.num_folds})",
                                 {"kind": "requires-grad", "init": d["i"], "folded": tp.num_folds > 1}))
        return problems

    def apply(self, ev):
        if ev == "reset":
            self.cc.reset_parameters()
            return self.check(True)
        if ev == "update":
            with torch.no_grad():
                for t, d, init, dtype, learn in self.tensors:
                    tp, idx = self.compiler.state.retrieve_compiled_parameter(t)
                    if tp._ptensor.dtype == torch.int64:
                        tp._ptensor.data[idx] += 1
                    else:
                        tp._ptensor.data[idx] += 0.37
            self.prev = [None] * len(self.tensors)
            return []
        raise ValueError(ev)


def replay_factory(case):
    def replay(hist):
        w = World(case)
        problems = w.check(False)
        for i, ev in enumerate(hist):
            p = w.apply(ev)
            if i == len(hist) - 1:
                problems = p
        return list(hist), (tuple(hist), tuple(w.outcome)), problems

    return replay


def run_case(case):
    dims = {"init": case["init"]["i"], "rank": len(case["shape"]), "fold": case["fold"], "group": 1 + len(case["siblings"] or []), "learnable": case["learnable"]}
    try:
        if "history" in case:
            _, _, probs = replay_factory(case)(case["history"])
            if probs:
                return {"status": "violation", "nontrivial": True, "violations": [{"sig": probs[0][1], "detail": probs[0][0], "case": case}], "sig": probs[0][1], "detail": probs[0][0]}
            return {"status": "ok", "nontrivial": True}
        res = bfs.explore(lambda: [], lambda m: ["reset", "update"], replay_factory(case), case["depth"], isolate=False)
    except Exception as e:
        import traceback

        return {"status": "violation", "nontrivial": False, "dims": dims, "states": 1, "transitions": 1,
                "violations": [{"sig": {"kind": "exception", "init": case["init"]["i"], "folded": bool(case["fold"] and case["siblings"]), **exc_sig(e)},
                                "detail": traceback.format_exc()[-1200:], "case": dict(case, history=[])}]}
    out = {"status": "violation" if res.violations else "ok", "nontrivial": bool(case["siblings"]) and case["fold"], "states": res.states,
           "transitions": res.transitions, "traces": res.replays, "evaluations": res.transitions, "dims": dims,
           "outcome": f"{dims['init']}:{dims['rank']}:{dims['group']}:{case['fold']}", "summary": f"states={res.states} transitions={res.transitions}"}
    if res.violations:
        out["violations"] = [{"sig": sig, "detail": msg, "case": dict(case, history=hist)} for hist, msg, sig in res.violations]
    return out
