"""C01 - compiled circuit computes the function its symbolic circuit denotes (E1)."""
from __future__ import annotations

import itertools
import os
import traceback

import numpy as np

from mc import alphabet as A
from mc import cdl, ref
from mc.harness import FLAGS, SEMIRINGS, Compiled, close, maxdiff
from mc.util import exc_sig, stable_hash

PROPERTY = "C01"
LEVEL = "exploration"
RULE = (
    "cases = (region tree x product type x sum placement x units x n-ary kind x outputs x numbering x "
    "input kind x valuation kind), each run under 3 semirings x 4 (fold, optimize) flags on the complete "
    "input table in several batch presentations; a case is non-trivial when the compiled circuit has an inner "
    "layer and at least one configuration was compared with the numpy reference on >= 2 distinct rows"
)
ASSUMPTIONS = [
    "symbolic Circuit/Layer/Parameter data structures carry the denotation (reference interprets them in numpy)",
    "real parameters are sampled at generic points (VERIF_SEED) plus exact-zero edge valuations, not enumerated",
    "float64 CPU only",
]
BOUNDS = {
    "quick": {"max_vars": 3, "units": [1, 2], "numberings": ["id", "h8"]},
    "thorough": {"max_vars": 3, "units": [1, 2, 3], "numberings": list(A.NUMBERINGS)},
}
CHUNK = 4


def cases(tier, seed):
    thorough = tier == "thorough"
    units = [(1, 1), (2, 2), (2, 1)] if not thorough else [(1, 1), (2, 2), (2, 1), (1, 2), (3, 3), (3, 2), (2, 3)]
    numberings = BOUNDS[tier]["numberings"]
    trees = A.trees_upto(3)
    seen = set()

    def emit(c):
        key = repr(sorted(c.items(), key=lambda kv: kv[0]))
        if key in seen:
            return None
        seen.add(key)
        return c

    # core product
    for tree in trees:
        for prod, style in [("had", "cpt"), ("had", "cp"), ("had", "plain"), ("had", "sumsum"), ("kro", "cpt"), ("kro", "sumsum")]:
            for kin, ksum in units:
                for nary in (["dense", "mixing"] if (not isinstance(tree, int) and tree[0] == "M") else ["dense"]):
                    for outputs in ["single", "two", "feeds", "inner", "sub"]:
                        for numbering in numberings:
                            for inp in ["cat-logits", "emb"]:
                                if not thorough:
                                    # quick: thin the cross product deterministically (keep every value of every dim)
                                    h = stable_hash(A.tree_name(tree), prod, style, kin, ksum, nary, outputs, numbering, inp) % 7
                                    if numbering != "id" and outputs != "single" and h not in (0, 1):
                                        continue
                                for vk in (["generic", "monotone"] if thorough else ["generic"]):
                                    kout = 1 if outputs not in ("inner", "sub") else ksum
                                    c = emit(dict(tree=tree, prod=prod, style=style, kin=kin, ksum=ksum, kout=kout, nary=nary,
                                                  outputs=outputs, numbering=numbering, inp=inp, vk=vk))
                                    if c:
                                        yield c
    # two mixing / n-ary sums of the same shape side by side (they fold into one layer and one mixing-weight node)
    twin = ("P", [("M", [[0, 1], [1, 0]]), ("M", [[2, 3], [3, 2]])])
    for prod, style in [("had", "cpt"), ("had", "cp"), ("kro", "cpt")]:
        for kin, ksum in [(2, 2), (3, 3), (2, 1)]:
            for nary in ["mixing", "dense", "mixing-softmax"]:
                for numbering in ["id", "h8"]:
                    c = emit(dict(tree=twin, prod=prod, style=style, kin=kin, ksum=ksum, kout=1, nary=nary, outputs="single",
                                  numbering=numbering, inp="cat-logits", vk="generic"))
                    if c:
                        yield c
    # sweeps on representative trees: every input kind, permutations, zeros, kout>1, sum weights
    reps = A.REPRESENTATIVE_TREES + [("P", [0, 1]), 0]
    for tree in reps:
        for inp in A.INPUT_KINDS_ALL:
            for prod, style in [("had", "cpt"), ("kro", "cpt"), ("had", "cp")]:
                for numbering in (["id", "h8"] if not thorough else numberings):
                    for k in ([2] if not thorough else [1, 2, 3]):
                        for vk in ["generic", "monotone", "zeros"]:
                            c = emit(dict(tree=tree, prod=prod, style=style, kin=k, ksum=k, kout=2, nary="dense", outputs="single",
                                          numbering=numbering, inp=inp, vk=vk))
                            if c:
                                yield c
        # mixed input kinds per variable
        for mixed in [["cat-logits", "gau", "emb"], ["bin-probs", "poly2", "cat-probs"], ["gau-lp", "bin-logits", "poly1"]]:
            for prod in ["had", "kro"]:
                c = emit(dict(tree=tree, prod=prod, style="cpt", kin=2, ksum=2, kout=1, nary="dense", outputs="single",
                              numbering="h8", inp="emb", vk="monotone", mixed=mixed))
                if c:
                    yield c
        # product-input permutations
        if not isinstance(tree, int):
            for perm in itertools.permutations(range(3)):
                for prod in ["had", "kro"]:
                    c = emit(dict(tree=tree, prod=prod, style="cpt", kin=2, ksum=2, kout=1, nary="mixing" if tree[0] == "M" else "dense",
                                  outputs="two", numbering="h9", inp="cat-logits", vk="generic", perm=list(perm)))
                    if c:
                        yield c
        for sumw in ["softmax", "exp"]:
            for nary in ["dense", "mixing", "mixing-softmax"]:
                c = emit(dict(tree=tree, prod="had", style="cpt", kin=2, ksum=2, kout=1, nary=nary if (not isinstance(tree, int) and tree[0] == "M") else "dense",
                              outputs="single", numbering="gap", inp="cat-softmax", vk="monotone", sumw=sumw))
                if c:
                    yield c
        # sibling sum layers with different weight parameterisations (softmax(tensor) / plain tensor alternate)
        for sumw in ["alt", "alt2"]:
            for prod, style in [("had", "cpt"), ("kro", "cpt"), ("had", "cp"), ("had", "sumsum")]:
                for k in [2, 3]:
                    c = emit(dict(tree=tree, prod=prod, style=style, kin=k, ksum=k, kout=1, nary="dense", outputs="single",
                                  numbering="id", inp="cat-logits", vk="monotone", sumw=sumw))
                    if c:
                        yield c
        # complex parameters (complex-lse-sum only)
        for inp in ["emb", "poly2"]:
            c = emit(dict(tree=tree, prod="had", style="cpt", kin=2, ksum=2, kout=1, nary="dense", outputs="single",
                          numbering="id", inp=inp, vk="complex", cplx=True))
            if c:
                yield c


def build(case):
    spec = A.make_spec(
        _tt(case["tree"]), numbering=case["numbering"], inp=case["inp"], prod=case["prod"], style=case["style"],
        kin=case["kin"], ksum=case["ksum"], kout=case["kout"], nary=case["nary"], outputs=case["outputs"],
        perm=case.get("perm"), sumw=case.get("sumw", "dense"), mixed_inputs=case.get("mixed"), cplx=case.get("cplx", False),
    )
    return spec


def _tt(t):
    """JSON round trip turns tuples into lists: normalise back."""
    if isinstance(t, int):
        return t
    tag, body = t[0], t[1]
    if tag == "P":
        return ("P", [_tt(c) for c in body])
    return ("M", [[_tt(c) for c in part] for part in body])


def semirings_for(case, positive):
    if case.get("cplx"):
        return ["complex-lse-sum"]
    out = ["sum-product", "complex-lse-sum"]
    if positive:
        out.append("lse-sum")
    return out


def run_case(case):
    seed = int(os.environ.get("VERIF_SEED", "0"))
    spec = build(case)
    if spec is None:
        return {"status": "skip", "nontrivial": False}
    sc, roles = cdl.build_circuit(spec)
    val = cdl.valuation(roles, case["vk"], seed)
    dom = ref.var_domains(sc)
    poly = any(l["t"] == "poly" for l in spec["layers"])
    grid = (0.0, 0.4, 1.1, 1.9) if (poly and case["vk"] == "monotone") else ref.CONT_GRID
    rows = ref.assignments(dom, cont_grid=grid, max_rows=48)
    cval = ref.with_cache(val)
    expected = ref.eval_circuit_table(sc, cval, rows)  # (B, O, K)
    scale = ref.eval_circuit_table(sc, ref.with_cache({k: np.abs(v) for k, v in val.items()}), [
        {v: (abs(a) if isinstance(a, float) else a) for v, a in r.items()} for r in rows])
    positive = case["vk"] == "monotone" and bool(np.all(expected.real > 0)) and not np.iscomplexobj(
        np.concatenate([np.ravel(v) for v in val.values()]) if val else np.zeros(1)
    )
    viols = []
    counters = {"configs": 0, "compared_rows": 0}
    nvars = max(sc.scope) + 1
    for semiring in semirings_for(case, positive):
        for fold, optimize in FLAGS:
            cfg = {"semiring": semiring, "fold": fold, "optimize": optimize}
            try:
                cc = Compiled([sc], semiring, fold, optimize)
                cc.bind(val)
                got = cc.evaluate(sc, rows, nvars)
            except Exception as e:
                viols.append({"sig": {"kind": "exception", **exc_sig(e), **cfg_sig(cfg, case)}, "detail": traceback.format_exc()[-1500:], "case": {**case, "cfg": cfg}})
                continue
            counters["configs"] += 1
            counters["compared_rows"] += len(rows)
            if got.shape != expected.shape:
                viols.append({"sig": {"kind": "shape", **cfg_sig(cfg, case)}, "detail": f"shape {got.shape} expected {expected.shape}", "case": {**case, "cfg": cfg}})
                continue
            if not close(got, expected, scale):
                viols.append({"sig": {"kind": "mismatch", **cfg_sig(cfg, case)},
                              "detail": f"max|diff|={maxdiff(got, expected):.3e} first row got={got[0].tolist()} exp={expected[0].tolist()}",
                              "case": {**case, "cfg": cfg}})
                continue
            # batch presentations: every row alone, batch sizes equal to fold counts, permuted rows
            folds = sorted({m.num_folds for m in cc.cc(sc).layers if m.num_folds > 1})
            pres = [[i] for i in range(min(len(rows), 4))]
            for f in folds:
                if f <= len(rows):
                    pres.append(list(range(f)))
            pres.append(list(reversed(range(len(rows)))))
            for idx in pres:
                try:
                    sub = cc.evaluate(sc, [rows[i] for i in idx], nvars)
                except Exception as e:
                    viols.append({"sig": {"kind": "exception-batch", "batch": len(idx), **exc_sig(e), **cfg_sig(cfg, case)},
                                  "detail": traceback.format_exc()[-1500:], "case": {**case, "cfg": cfg, "batch": idx}})
                    break
                if not close(sub, expected[idx], scale[idx], rtol=1e-9):
                    viols.append({"sig": {"kind": "rowdep", "batch": len(idx), **cfg_sig(cfg, case)},
                                  "detail": f"batch {idx}: max|diff|={maxdiff(sub, expected[idx]):.3e}", "case": {**case, "cfg": cfg, "batch": idx}})
                    break
                counters["compared_rows"] += len(idx)
    f = A.spec_features(spec)
    res = {
        "status": "violation" if viols else "ok",
        "nontrivial": len(rows) >= 2 and counters["configs"] > 0,
        "counters": counters,
        "evaluations": max(1, counters["configs"]),
        "dims": {"prod": case["prod"], "style": case["style"], "inp": case.get("mixed") and "mixed" or case["inp"], "numbering": case["numbering"],
                 "outputs": case["outputs"], "vk": case["vk"], "nary": case["nary"], "units": f"{case['kin']}/{case['ksum']}/{case['kout']}",
                 "tree": A.tree_name(_tt(case["tree"]))},
        "outcome": f"{f['n_layers']}:{expected.shape}",
        "summary": f"{f['n_layers']} layers, {len(rows)} rows, {counters['configs']} configs",
    }
    if viols:
        res["violations"] = viols
    return res


def cfg_sig(cfg, case):
    inp = "mixed" if case.get("mixed") else case["inp"]
    return {"semiring": cfg["semiring"], "fold": cfg["fold"], "optimize": cfg["optimize"], "inp": inp.split("-")[0].rstrip("0123"), "prod": case["prod"]}


def finalize(agg):
    issues = []
    for d, wanted in {"prod": ["had", "kro"], "outputs": ["single", "two", "feeds", "inner", "sub"]}.items():
        for w in wanted:
            if not agg["dims"].get(d, {}).get(w):
                issues.append(f"dimension {d} never took value {w}")
    return issues
