"""C15 - sampling draws from the distribution the circuit encodes (E3)."""
from __future__ import annotations

import os
import traceback

import numpy as np
import torch

from cirkit.backend.torch.queries import SamplingQuery

from mc import alphabet as A
from mc import cdl, choice, pools, ref
from mc.harness import FLAGS, Compiled
from mc.util import exc_sig

PROPERTY = "C15"
LEVEL = "exploration"
RULE = (
    "harness = normalised monotone circuits over 1..3 variables (categorical via softmax / log-softmax, binomial; sums with "
    "softmax weights: arity 1, dense n-ary, mixing; Hadamard / Kronecker; units 1..2) x (fold, optimize) x num_samples in {1, 2}; "
    "exploration = ALL random streams: every scalar draw of every Categorical/Binomial sample call is a choice point, all choice "
    "vectors enumerated depth-first, each execution weighted by the product of the probabilities taken; oracle: total weight 1, "
    "the weighted distribution of returned rows equals the circuit's exact probabilities (reference model, 1e-12), support, "
    "shape (N, |scope|), N = 2 factorises; for N = 1 the whole exploration is repeated on the same compiled circuit and query after "
    "an in-place update of every parameter (stale sampling caches). Non-trivial: >= 2 distinct rows observed with positive weight"
)
ASSUMPTIONS = ["continuous (Gaussian) inputs are not enumerable and are outside this check", "variables numbered 0..n-1 (the query returns one column per variable)"]
BOUNDS = {"quick": {"max_vars": 3, "max_points": 14}, "thorough": {"max_vars": 3, "max_points": 17}}
CHUNK = 1


def cases(tier, seed):
    thorough = tier == "thorough"
    trees = [0, ("P", [0, 1]), ("M", [[0, 1], [1, 0]]), ("M", [[0, 1], [0, 1]]),
             # asymmetric DAGs over 3 variables with shared leaves (products at different depths, each alone in its fold group)
             ("M", [[0, 1, 2], [("P", [1, 2]), 0]]), ("M", [[("P", [0, 1]), 2], [0, 1, 2]])]
    if thorough:
        trees += [("P", [0, 1, 2]), ("P", [("P", [0, 1]), 2]), ("M", [[("P", [0, 1]), 2], [("P", [0, 2]), 1]])]
    for tree in trees:
        nv = len(A.tree_vars(tree))
        for prod, style in [("had", "cpt"), ("had", "cp"), ("kro", "cpt"), ("had", "plain")]:
            nary_opts = ["softmax", "mixing-softmax"] if (not isinstance(tree, int) and tree[0] == "M") else ["softmax"]
            for nary in nary_opts:
                for inp in ["cat-softmax", "cat-logsoftmax", "bin-sigmoid"]:
                    for k in [1, 2]:
                        if k == 2 and nv >= 3 and not (thorough and tree[0] == "P"):
                            continue
                        if k == 2 and nv == 2 and not isinstance(tree, int) and tree[0] == "M" and prod == "kro" and not thorough:
                            continue
                        circ = dict(tree=tree, prod=prod, style=style, nary=nary, kin=k, ksum=k, kout=1, inp=inp, numbering="id", sumw="softmax")
                        for fold, optimize in FLAGS:
                            for n in ([1, 2] if (nv == 1 or (nv == 2 and k == 1)) else [1]):
                                yield {"circ": circ, "fold": fold, "optimize": optimize, "n": n}


def run_case(case):
    seed = int(os.environ.get("VERIF_SEED", "0"))
    tier = os.environ.get("VERIF_TIER", "quick")
    spec = pools.spec_from(case["circ"])
    if spec is None:
        return {"status": "skip", "nontrivial": False}
    sc, roles = cdl.build_circuit(spec)
    val = cdl.valuation(roles, "monotone", seed)
    dom = ref.var_domains(sc)
    vs = sorted(sc.scope)
    rows = ref.assignments(dom)
    table = ref.eval_circuit_table(sc, ref.with_cache(val), rows)[:, 0, 0].real
    c = case["circ"]
    dims = {"prod": c["prod"], "style": c["style"], "inp": c["inp"], "nary": c["nary"], "k": c["kin"], "fold": case["fold"], "optimize": case["optimize"],
            "n": case["n"], "tree": A.tree_name(pools.tt(c["tree"]))}
    if abs(table.sum() - 1.0) > 1e-9 or np.any(table < 0):
        raise RuntimeError(f"harness: circuit is not normalised (Z={table.sum()})")
    exact = {tuple(int(r[v]) for v in vs): float(p) for r, p in zip(rows, table)}
    sig_base = {"prod": c["prod"], "style": c["style"], "optimize": case["optimize"]}
    try:
        cc = Compiled([sc], "sum-product", case["fold"], case["optimize"])
        cc.bind(val)
        q = SamplingQuery(cc.cc(sc))
        n = case["n"]

        def run():
            with torch.no_grad():
                samples, _ = q(num_samples=n)
            if tuple(samples.shape) != (n, len(vs)):
                return ("shape", tuple(samples.shape))
            return tuple(tuple(int(v) for v in row) for row in samples.tolist())

        cap = 2 ** BOUNDS[tier]["max_points"] * 4
        dist, executions, points, total, capped = choice.explore(run, max_executions=cap)
    except choice.Divergence as e:
        raise RuntimeError(f"harness: {e}")
    except Exception as e:
        return {"status": "violation", "nontrivial": False, "dims": dims,
                "violations": [{"sig": {"kind": "exception", **exc_sig(e), **sig_base}, "detail": traceback.format_exc()[-1200:], "case": case}]}
    if capped:
        return {"status": "skip", "nontrivial": False, "dims": dims, "counters": {"capped_cases": 1}}
    viols = check_distribution(dist, total, exact, n, vs)
    phase2 = 0
    if not viols and n == 1 and executions <= PHASE2_MAX_EXECUTIONS:
        # second phase on the SAME compiled circuit and query: change every parameter in place, then explore all streams again
        val2 = cdl.valuation(roles, "monotone", seed + 101)
        table2 = ref.eval_circuit_table(sc, ref.with_cache(val2), rows)[:, 0, 0].real
        if abs(table2.sum() - 1.0) > 1e-9 or np.any(table2 < 0):
            raise RuntimeError(f"harness: circuit is not normalised after the update (Z={table2.sum()})")
        exact2 = {tuple(int(r[v]) for v in vs): float(p) for r, p in zip(rows, table2)}
        try:
            cc.bind(val2)
            dist2, ex2, points2, total2, capped2 = choice.explore(run, max_executions=cap)
        except choice.Divergence as e:
            raise RuntimeError(f"harness: {e}")
        except Exception as e:
            return {"status": "violation", "nontrivial": False, "dims": dims,
                    "violations": [{"sig": {"kind": "exception", "phase": "after-update", **exc_sig(e), **sig_base}, "detail": traceback.format_exc()[-1200:], "case": case}]}
        if not capped2:
            phase2 = 1
            executions += ex2
            viols = [(k + "-after-update", "after an in-place update of every parameter: " + d) for k, d in check_distribution(dist2, total2, exact2, n, vs)]
    out = {"status": "violation" if viols else "ok", "nontrivial": len(dist) >= 2, "dims": dims, "evaluations": executions,
           "counters": {"executions": executions, "choice_points_max": points, "resampled_after_update": phase2}, "outcome": f"{len(dist)}:{points}",
           "summary": f"{executions} executions, {points} choice points, {len(dist)} distinct observations, total weight {total:.12f}"}
    if viols:
        out["violations"] = [{"sig": {"kind": k, **sig_base}, "detail": d, "case": case} for k, d in viols]
    return out


PHASE2_MAX_EXECUTIONS = 4096


def check_distribution(dist, total, exact, n, vs):
    viols = []
    if abs(total - 1.0) > 1e-9:
        viols.append(("weights", f"total weight of all executions = {total}"))
    bad_shape = [o for o in dist if o and o[0] == "shape"]
    if bad_shape:
        viols.append(("shape", f"returned shape {bad_shape[0][1]} instead of {(n, len(vs))}"))
    else:
        # exact joint over N rows must be the product of the circuit's distribution
        for obs, w in dist.items():
            p = 1.0
            for row in obs:
                p *= exact.get(row, 0.0)
            if w > 1e-15 and p == 0.0:
                viols.append(("support", f"rows {obs} returned with weight {w} but have probability 0 / lie outside the domain"))
                break
            if abs(w - p) > 1e-11:
                viols.append(("distribution", f"rows {obs}: sampler probability {w:.12f} vs circuit {p:.12f}"))
                break
        seen_rows = {row for obs in dist for row in obs}
        missing = [r for r, p in exact.items() if p > 1e-12 and r not in seen_rows]
        if missing and not viols:
            viols.append(("distribution", f"rows {missing[:3]} with positive probability are never sampled"))
    return viols
