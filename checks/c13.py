"""C13 - gradients of compiled circuits are correct and flag-independent (E1)."""
from __future__ import annotations

import os
import traceback

import numpy as np
import torch

from mc import alphabet as A
from mc import cdl, pools, ref
from mc.harness import FLAGS, Compiled, circuit_tensor_params
from mc.pipecheck import collapse
from mc.util import exc_sig

PROPERTY = "C13"
LEVEL = "exploration"
RULE = (
    "cases = circuits of the bounded grammar (<= 3 variables, <= 2 units) x valuation kind {generic, monotone, zeros, mzeros, complex, tiny}; "
    "per case every semiring x (fold, optimize): autograd gradient of a fixed generic linear functional of all linear-space "
    "outputs on all rows, mapped back to symbolic tensors through the registry, compared (a) across the four flag "
    "combinations (1e-9), (b) with central finite differences of the numpy reference (1e-5; generic/monotone only), (c) the "
    "same for continuous inputs; (d) per (row, output unit) gradients must be finite wherever the value is non-zero "
    "(zeros / mzeros valuations incl. lse-sum and the safe complex logarithm); (e) across semirings with the sum-product "
    "semiring's autograd gradient (1e-8 relative; generic, monotone and a 'tiny' valuation with sum weights ~1e-7). Non-trivial: >= 2 learnable tensors compared"
)
ASSUMPTIONS = ["finite differences decide (b), (c) only to 1e-5 relative; (a), (d) are exact comparisons",
               "a generic linear functional of the outputs stands for the individual output gradients in (a)-(c)"]
BOUNDS = {"quick": {"max_vars": 3, "units": [1, 2]}, "thorough": {"max_vars": 3, "units": [1, 2]}}
CHUNK = 2


def cases(tier, seed):
    thorough = tier == "thorough"
    for tree, prod, style, nary in pools.structure_pool(tier):
        nv = len(A.tree_vars(tree))
        for inp in ["emb", "cat-logits", "cat-probs", "cat-softmax", "gau", "gau-lp", "poly2", "bin-probs", "bin-logits"]:
            if not thorough and inp in ("cat-probs", "bin-logits", "gau") and (prod, style) != ("had", "cpt"):
                continue
            for k in ([2] if not thorough else [1, 2]):
                for outputs in (["single", "two"] if inp == "emb" else ["single"]):
                    circ = dict(tree=tree, prod=prod, style=style, nary=nary, kin=k, ksum=k, kout=2 if outputs == "single" else 1, inp=inp,
                                numbering="h8" if inp in ("emb", "gau") else "id", outputs=outputs,
                                sumw="softmax" if inp == "cat-softmax" else "dense")
                    if inp in ("emb", "cat-logits") and outputs == "single":
                        # some layers frozen (non-learnable tensors of the same shape as learnable ones)
                        for frozen in ("even", "odd"):
                            yield {"circ": circ, "vk": "monotone", "frozen": frozen}
                    if inp in ("emb", "poly2") and outputs == "single":
                        yield {"circ": dict(circ, cplx=True), "vk": "complex"}
                        # tiny magnitudes (sum weights ~1e-7): the log-space semirings must still give the gradient of the
                        # linear-space functional (compared with the sum-product semiring's autograd, 1e-8 relative)
                        yield {"circ": circ, "vk": "tiny"}
                    for vk in ["generic", "monotone", "zeros", "mzeros"]:
                        if vk in ("zeros", "mzeros") and inp in ("gau", "gau-lp", "bin-probs", "bin-logits", "cat-logits", "cat-softmax"):
                            if inp != "cat-logits":
                                continue
                        if vk == "generic" and inp not in ("emb", "poly2", "cat-logits", "gau"):
                            continue
                        yield {"circ": circ, "vk": vk}


def functional_coeffs(shape, seed):
    rng = np.random.default_rng([seed, 77])
    return rng.uniform(0.5, 1.5, size=shape) * np.where(rng.uniform(size=shape) < 0.5, -1.0, 1.0)


def linear_outputs(cc, sc, x):
    y = cc.cc(sc)(x)
    if cc.semiring == "sum-product":
        return y.to(torch.complex128) if not y.is_complex() else y
    return torch.exp(y.to(torch.complex128))


def grads_of(cc, sc, params, x, coeff_t, want_x=False):
    """Gradient of J = Re(sum(coeff * linear outputs)) w.r.t. every symbolic tensor (and x)."""
    tc = cc.cc(sc)
    for p in tc.parameters():
        p.grad = None
    if want_x:
        x = x.clone().requires_grad_(True)
    lin = linear_outputs(cc, sc, x)
    j = (lin * coeff_t).sum().real
    j.backward()
    out = {}
    for i, t in enumerate(params):
        tp, idx = cc.slot(t)
        g = tp._ptensor.grad
        out[i] = None if g is None else g[idx].detach().numpy().copy()
    gx = x.grad.detach().numpy().copy() if want_x else None
    return out, gx, lin.detach().numpy()


def ref_functional(sc, val, rows, coeff):
    table = ref.eval_circuit_table(sc, ref.with_cache(val), rows)
    return float((table * coeff).sum().real)


def run_case(case):
    seed = int(os.environ.get("VERIF_SEED", "0"))
    spec = pools.spec_from(case["circ"])
    if spec is None:
        return {"status": "skip", "nontrivial": False}
    if case.get("frozen"):
        par = [i for i, l in enumerate(spec["layers"]) if l["t"] not in ("had", "kro")]
        for j, i in enumerate(par):
            if (j % 2 == 0) == (case["frozen"] == "even"):
                spec["layers"][i] = dict(spec["layers"][i], frozen=True)
    sc, roles = cdl.build_circuit(spec)
    vk = case["vk"]
    val = cdl.valuation(roles, "generic" if vk == "tiny" else vk, seed)
    if vk == "tiny":
        val = {t: (v * 1e-7 if roles[t] == "w" else v) for t, v in val.items()}
    dom = ref.var_domains(sc)
    poly = case["circ"]["inp"].startswith("poly")
    grid = (0.3, 0.9, 1.6) if (poly and vk in ("monotone", "mzeros")) else (-0.8, 0.35, 1.2)
    rows = ref.assignments(dom, cont_grid=grid, max_rows=8)
    nvars = max(sc.scope) + 1
    params = [t for t in circuit_tensor_params(sc) if t in roles]
    expected = ref.eval_circuit_table(sc, ref.with_cache(val), rows)
    coeff = functional_coeffs(expected.shape, seed)
    coeff_t = torch.from_numpy(coeff).to(torch.complex128)
    cont_vars = [v for v in sorted(sc.scope) if dom[v][0] == "cont"]
    positive = vk in ("monotone", "mzeros") and bool(np.all(expected.real >= 0))
    strictly_pos = positive and bool(np.all(expected.real > 0))
    semirings = ["sum-product", "complex-lse-sum"] + (["lse-sum"] if strictly_pos or (vk == "mzeros" and positive) else [])
    if vk == "complex":
        semirings = ["complex-lse-sum"]
    do_fd = vk in ("generic", "monotone", "complex")
    viols = []
    counters = {"configs": 0, "fd_entries": 0, "finite_checks": 0}
    # ---- finite differences of the reference (independent of the configuration)
    fd = {}
    fdx = None
    if do_fd:
        h = 1e-6
        for i, t in enumerate(params):
            if not t.learnable:
                continue
            is_c = np.iscomplexobj(val[t])
            g = np.zeros(t.shape, dtype=np.complex128 if is_c else np.float64)
            base = np.array(val[t], dtype=np.complex128 if is_c else np.float64)
            for idx in np.ndindex(*t.shape):
                for unit in ([1.0, 1j] if is_c else [1.0]):
                    vp = dict(val)
                    a = base.copy(); a[idx] += h * unit; vp[t] = a
                    vm = dict(val)
                    b = base.copy(); b[idx] -= h * unit; vm[t] = b
                    d = (ref_functional(sc, vp, rows, coeff) - ref_functional(sc, vm, rows, coeff)) / (2 * h)
                    g[idx] += d * unit  # torch convention for a real objective: grad = dJ/dRe + i dJ/dIm
                    counters["fd_entries"] += 1
            fd[i] = g
        if cont_vars:
            fdx = np.zeros((len(rows), nvars))
            for bi in range(len(rows)):
                for v in cont_vars:
                    rp = [dict(r) for r in rows]; rp[bi][v] = rows[bi][v] + h
                    rm = [dict(r) for r in rows]; rm[bi][v] = rows[bi][v] - h
                    fdx[bi, v] = (ref_functional(sc, val, rp, coeff) - ref_functional(sc, val, rm, coeff)) / (2 * h)
    per_cfg = {}
    for semiring in semirings:
        for fold, optimize in FLAGS:
            cfg = {"semiring": semiring, "fold": fold, "optimize": optimize}
            try:
                cc = Compiled([sc], semiring, fold, optimize)
                cc.bind(val)
                x = cc.batch_tensor(rows, nvars)
                if cont_vars:
                    x = x.to(torch.float64)
                g, gx, lin = grads_of(cc, sc, params, x, coeff_t, want_x=bool(cont_vars))
            except Exception as e:
                viols.append({"sig": {"kind": "exception", **exc_sig(e), **cfg}, "detail": traceback.format_exc()[-1200:]})
                continue
            counters["configs"] += 1
            per_cfg[(semiring, fold, optimize)] = (g, gx)
            scale = max(1.0, float(np.max(np.abs(expected))))
            for i, t in enumerate(params):
                if not t.learnable:
                    if g[i] is not None:
                        viols.append({"sig": {"kind": "gradient-on-frozen-tensor", "role": roles[t], **cfg}, "detail": f"non-learnable tensor {i} ({roles[t]}) accumulates a gradient"})
                    continue
                if g[i] is None:
                    viols.append({"sig": {"kind": "no-gradient", "role": roles[t], **cfg}, "detail": f"tensor {i} ({roles[t]}) received no gradient"})
                    continue
                if not np.all(np.isfinite(g[i])):
                    # (d) only demanded where the value is non-zero: the functional sums rows, all have non-zero value?
                    if np.all(np.abs(expected) > 0):
                        viols.append({"sig": {"kind": "non-finite-gradient", "vk": vk, "semiring": semiring, "_nomerge": True},
                                      "detail": f"{cfg}: tensor {i} ({roles[t]}) gradient {g[i].reshape(-1)[:6]} while all outputs are non-zero"})
                    continue
                if do_fd:
                    ref_g = fd[i]
                    tol = 1e-5 * max(scale, float(np.max(np.abs(ref_g)))) + 1e-7
                    if not np.all(np.abs((g[i] if np.iscomplexobj(ref_g) else np.real(g[i])) - ref_g) <= tol):
                        viols.append({"sig": {"kind": "gradient-vs-finite-differences", "role": roles[t], **cfg},
                                      "detail": f"tensor {i} ({roles[t]}): autograd {np.real(g[i]).reshape(-1)[:6]} fd {ref_g.reshape(-1)[:6]}"})
            if do_fd and fdx is not None and gx is not None:
                tol = 1e-5 * max(scale, float(np.max(np.abs(fdx)))) + 1e-7
                if not np.all(np.abs(gx - fdx) <= tol):
                    viols.append({"sig": {"kind": "input-gradient-vs-finite-differences", **cfg}, "detail": f"autograd {gx.reshape(-1)[:8]} fd {fdx.reshape(-1)[:8]}"})
            # (d) per (row, output unit) finiteness on the zero-valuations
            if vk in ("zeros", "mzeros"):
                tc = cc.cc(sc)
                for bi in range(min(len(rows), 4)):
                    xb = cc.batch_tensor([rows[bi]], nvars)
                    y = tc(xb)
                    for o in range(y.shape[1]):
                        for k in range(y.shape[2]):
                            if abs(expected[bi, o, k]) == 0:
                                continue
                            for p in tc.parameters():
                                p.grad = None
                            yy = tc(xb)[0, o, k]
                            (yy.real if yy.is_complex() else yy).backward()
                            counters["finite_checks"] += 1
                            bad = [n for n, p in tc.named_parameters() if p.grad is not None and not torch.all(torch.isfinite(p.grad))]
                            if bad:
                                viols.append({"sig": {"kind": "non-finite-gradient", "vk": vk, "semiring": semiring, "_nomerge": True},
                                              "detail": f"{cfg}: row {rows[bi]} output ({o},{k}) value {expected[bi, o, k]}: non-finite grad in {bad[:3]}"})
                                break
    # (e) across semirings: J is the same linear-space functional in every semiring, so its gradient must not depend on it
    if vk in ("generic", "monotone", "tiny") and not case.get("frozen"):
        base = per_cfg.get(("sum-product", False, False))
        for semiring in semirings:
            other = per_cfg.get((semiring, False, False))
            if semiring == "sum-product" or base is None or other is None:
                continue
            for i, t in enumerate(params):
                a, b = base[0][i], other[0][i]
                if a is None or b is None or not (np.all(np.isfinite(a)) and np.all(np.isfinite(b))):
                    continue
                tol = 1e-8 * float(np.max(np.abs(a))) + 1e-300
                if not np.all(np.abs(a - b) <= tol):
                    viols.append({"sig": {"kind": "gradient-semiring-divergence", "vk": vk, "semiring": semiring, "_nomerge": True},
                                  "detail": f"tensor {i} ({roles[t]}): sum-product {a.reshape(-1)[:4]} vs {semiring} {b.reshape(-1)[:4]}"})
                    break
    # (a) across flags
    for semiring in semirings:
        base = per_cfg.get((semiring, False, False))
        if base is None:
            continue
        for fold, optimize in FLAGS[1:]:
            other = per_cfg.get((semiring, fold, optimize))
            if other is None:
                continue
            for i, t in enumerate(params):
                a, b = base[0][i], other[0][i]
                if a is None or b is None or not (np.all(np.isfinite(a)) and np.all(np.isfinite(b))):
                    continue
                tol = 1e-9 * max(1.0, float(np.max(np.abs(a)))) + 1e-12
                if not np.all(np.abs(a - b) <= tol):
                    viols.append({"sig": {"kind": "gradient-flag-divergence", "vk": vk, "semiring": semiring, "_nomerge": True},
                                  "detail": f"fold={fold} optimize={optimize}: tensor {i} ({roles[t]}): {a.reshape(-1)[:6]} vs {b.reshape(-1)[:6]}"})
    c = case["circ"]
    dims = {"inp": c["inp"], "prod": c["prod"], "style": c["style"], "vk": vk, "semirings": "+".join(semirings)}
    out = {"status": "violation" if viols else "ok", "nontrivial": len(params) >= 2 and counters["configs"] > 0, "counters": counters,
           "evaluations": max(1, counters["configs"]), "dims": dims, "outcome": f"{len(params)}:{vk}:{len(semirings)}", "summary": f"{counters}"}
    if viols:
        keep = {}
        for v in viols:
            if v["sig"].get("_nomerge"):
                sg = {k: x for k, x in v["sig"].items() if k != "_nomerge"}
                keep.setdefault(repr(sorted(sg.items())), dict(v, sig=sg))
        merged = list(keep.values()) + collapse([v for v in viols if not v["sig"].get("_nomerge")])
        out["violations"] = [dict(v, sig=dict(v["sig"], inp=c["inp"].split("-")[0]), case=case) for v in merged]
    return out
