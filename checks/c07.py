"""C07 - conjugate computes the complex conjugate (identity on real circuits) (E1)."""
from __future__ import annotations

import os

from mc import alphabet as A
from mc import pools
from mc.pipecheck import check_pipeline, collapse

PROPERTY = "C07"
LEVEL = "exploration"
RULE = (
    "cases = circuits of the bounded grammar with complex valuations (embedding / polynomial inputs, complex sum weights) "
    "and with real valuations for every input kind, as base circuits and as results of multiply / integrate / evidence; "
    "targets: conjugate(c), conjugate(conjugate(c)), integrate(conjugate(c)); compiled under every admissible semiring x "
    "(fold, optimize); oracle: numpy conj of the operand's definitional value. Non-trivial: compared under >= 1 configuration"
)
ASSUMPTIONS = ["complex parameters only run in the complex-lse-sum semiring (the other two reject complex weights)"]
BOUNDS = {"quick": {"max_vars": 3}, "thorough": {"max_vars": 3}}
CHUNK = 4

REAL_KINDS = ["emb", "cat-logits", "cat-probs", "cat-softmax", "gau", "gau-lp", "poly2", "bin-probs"]


def cases(tier, seed):
    thorough = tier == "thorough"
    for tree, prod, style, nary in pools.structure_pool(tier):
        k = 2 if prod == "had" else 1
        for numbering in (["id", "h8"] if thorough else ["h8"]):
            for inp in ["emb", "poly2"]:
                circ = dict(tree=tree, prod=prod, style=style, nary=nary, kin=k, ksum=k, kout=1, inp=inp, numbering=numbering, cplx=True)
                yield {"mode": "base", "circ": circ, "vk": "complex"}
                yield {"mode": "square", "circ": circ, "vk": "complex"}
                if inp == "emb":
                    yield {"mode": "integrate", "circ": circ, "vk": "complex"}
                    yield {"mode": "herm", "circ": circ, "vk": "complex"}
            for inp in REAL_KINDS:
                circ = dict(tree=tree, prod=prod, style=style, nary=nary, kin=k, ksum=k, kout=1, inp=inp, numbering=numbering)
                vk = "generic" if inp in ("emb", "poly2") else "monotone"
                yield {"mode": "base", "circ": circ, "vk": vk}
                if inp != "bin-probs":
                    yield {"mode": "square", "circ": circ, "vk": vk}
                nv = len(A.tree_vars(tree))
                if inp not in ("poly2", "bin-probs") and not (inp.startswith("gau") and nv > 2):
                    yield {"mode": "integrate", "circ": circ, "vk": vk}
                    if not (inp.startswith("gau") and nv > 1 and not thorough):
                        yield {"mode": "square-int", "circ": circ, "vk": vk}
                yield {"mode": "evidence", "circ": circ, "vk": vk}
    for tree in A.REPRESENTATIVE_TREES + [("P", [0, 1])]:
        for inp in ["emb", "gau", "cat-logits"]:
            circ = dict(tree=tree, prod="had", style="cpt", nary="dense", kin=2, ksum=2, kout=2, inp=inp, numbering="gap", outputs="two")
            yield {"mode": "base", "circ": circ, "vk": "monotone"}
            yield {"mode": "square", "circ": circ, "vk": "monotone"}


def pipeline_of(case):
    spec = pools.spec_from(case["circ"])
    if spec is None:
        return None, None
    m = case["mode"]
    vs = pools.var_ids(pools.tt(case["circ"]["tree"]), case["circ"]["numbering"])
    if m == "base":
        ops = [{"op": "conjugate", "args": [0]}, {"op": "conjugate", "args": [1]}]
        return {"circuits": [spec], "ops": ops}, [1, 2]
    if m == "square":
        ops = [{"op": "multiply", "args": [0, 0]}, {"op": "conjugate", "args": [1]}, {"op": "conjugate", "args": [2]}]
        return {"circuits": [spec], "ops": ops}, [2, 3]
    if m == "herm":  # c * conj(c), the construction conjugation exists for
        ops = [{"op": "conjugate", "args": [0]}, {"op": "multiply", "args": [0, 1]}, {"op": "integrate", "args": [2]}]
        return {"circuits": [spec], "ops": ops}, [2, 3]
    if m == "integrate":
        ops = [{"op": "conjugate", "args": [0]}, {"op": "integrate", "args": [1]}, {"op": "integrate", "args": [0]},
               {"op": "integrate", "args": [0], "scope": vs[:1]}, {"op": "conjugate", "args": [4]}]
        return {"circuits": [spec], "ops": ops}, [2, 3, 5]
    if m == "square-int":
        ops = [{"op": "multiply", "args": [0, 0]}, {"op": "conjugate", "args": [1]}, {"op": "integrate", "args": [2]}, {"op": "integrate", "args": [1]}]
        return {"circuits": [spec], "ops": ops}, [3, 4]
    if m == "evidence":
        v = vs[0]
        val = 0.4 if case["circ"]["inp"].startswith(("gau", "poly")) else 1
        ops = [{"op": "evidence", "args": [0], "obs": {str(v): val}}, {"op": "conjugate", "args": [1]}]
        return {"circuits": [spec], "ops": ops}, [2]
    raise ValueError(m)


def run_case(case):
    seed = int(os.environ.get("VERIF_SEED", "0"))
    pspec, targets = pipeline_of(case)
    if pspec is None:
        return {"status": "skip", "nontrivial": False}
    r = check_pipeline(pspec, targets, vk=case["vk"], seed=seed, max_rows=12)
    c = case["circ"]
    dims = {"mode": case["mode"], "inp": c["inp"], "prod": c["prod"], "cplx": bool(c.get("cplx")), "style": c["style"]}
    if r["status"] == "refused":
        # documented refusals: multiply of non-structured operands; missing conjugation / integration rule
        return {"status": "refused", "refusal": r["refusal"], "nontrivial": False, "dims": dims, "outcome": "refused:" + r["refusal"]}
    out = {"status": r["status"], "nontrivial": r["counters"].get("compared", 0) > 0, "counters": r["counters"],
           "evaluations": max(1, r["counters"].get("configs", 0)), "dims": dims, "outcome": f"{case['mode']}:{r.get('rows')}",
           "summary": f"{r['counters']}"}
    if r["violations"]:
        out["violations"] = [dict(v, sig=dict(v["sig"], mode=case["mode"]), case=case) for v in collapse(r["violations"])]
    return out
