"""C14 - every parameter operator computes its documented tensor function (E1)."""
from __future__ import annotations

import itertools
import os
import traceback

import numpy as np
import torch

from cirkit.backend.torch import compiler as TC
from cirkit.backend.torch.compiler import TorchCompiler
from cirkit.symbolic import layers as L
from cirkit.symbolic import parameters as P
from cirkit.symbolic.circuit import Circuit
from cirkit.symbolic.initializers import NormalInitializer

from mc import ref
from mc.harness import close, maxdiff
from mc.util import exc_sig

PROPERTY = "C14"
LEVEL = "exploration"
RULE = (
    "cases = (parameter node type) x (every admissible input shape of rank 1..3 with dimensions in {1,2,3}) x (every valid axis, "
    "positive and negative) x fold count in {1,2,3} (folded through the compiler's own parameter folding), plus all 2-node "
    "compositions whose shapes agree and the 3-node chains the operators build, plus optimize=True rewrites of "
    "reduce-sum/outer-product and log/softmax for every (outer axis, reduce axis); oracle: declared shape == compiled shape == "
    "computed shape and every fold slice equals the numpy definition. Non-trivial: the output has >= 2 entries"
)
ASSUMPTIONS = ["generic input values in the admissible range of each node (VERIF_SEED) plus clamp-boundary values"]
BOUNDS = {"quick": {"dims": [1, 2, 3], "max_rank": 3, "folds": [1, 2, 3]}, "thorough": {"dims": [1, 2, 3], "max_rank": 3, "folds": [1, 2, 3]}}
CHUNK = 16

DIMS = [1, 2, 3]


def shapes(rank_min=1, rank_max=3, dims=DIMS):
    for r in range(rank_min, rank_max + 1):
        for s in itertools.product(dims, repeat=r):
            yield list(s)


def axes(rank):
    return list(range(-rank, rank))


def node_cases(thorough):
    """Yield (name, kwargs) describing one node instance; JSON-able."""
    ent = ["exp", "log", "square", "softplus", "sigmoid", "scaled_sigmoid", "clamp_min", "clamp_max", "clamp_both", "conjugate",
           "clamp_zero_min", "clamp_zero_max", "clamp_zero_only", "scaled_sigmoid_zero"]
    for s in shapes():
        for n in ent:
            yield {"node": n, "shape": s}
        for ax in axes(len(s)):
            for n in ["reduce_sum", "reduce_prod", "reduce_lse"]:
                if len(s) >= 2:
                    yield {"node": n, "shape": s, "axis": ax}
            for n in ["softmax", "log_softmax"]:
                yield {"node": n, "shape": s, "axis": ax}
                if len(s) >= 2:
                    yield {"node": n + "_rowshift", "shape": s, "axis": ax}
            d = s[ax]
            idx_menu = [[0], [d - 1], list(range(d)), list(reversed(range(d))), [0, 0], [d - 1, 0, d - 1]]
            seen = set()
            for idx in idx_menu:
                if tuple(idx) in seen:
                    continue
                seen.add(tuple(idx))
                yield {"node": "index", "shape": s, "axis": ax, "indices": idx}
        yield {"node": "sum", "shape": s}
        yield {"node": "hadamard", "shape": s}
        for s2 in shapes(len(s), len(s)):
            if not thorough and sum(s) + sum(s2) > 9:
                continue
            yield {"node": "kronecker", "shape": s, "shape2": s2}
        for ax in axes(len(s)):
            for d2 in DIMS:
                s2 = list(s)
                s2[ax] = d2
                for n in ["outer_product", "outer_sum"]:
                    yield {"node": n, "shape": s, "shape2": s2, "axis": ax}
    for k in DIMS:
        for h in DIMS:
            yield {"node": "mixing", "shape": [k, h]}
    for k1 in DIMS:
        for k2 in DIMS:
            for n in ["gauss_mean", "gauss_stddev", "gauss_logpart"]:
                yield {"node": n, "k1": k1, "k2": k2}
            for d1 in [1, 2, 3, 4]:
                for d2 in [1, 2, 3]:
                    yield {"node": "poly_product", "shape": [k1, d1], "shape2": [k2, d2]}
                    yield {"node": "poly_product", "shape": [k1, d1], "shape2": [k2, d2], "cplx": True}
        for d1 in [1, 2, 3, 4]:
            for order in [1, 2, 3, 4]:
                yield {"node": "poly_diff", "shape": [k1, d1], "order": order}
    for s in shapes(1, 2):
        yield {"node": "reference", "shape": s}
        for val in ["scalar-int", "scalar-float", "scalar-complex", "array"]:
            yield {"node": "constant", "shape": s, "value": val}


UNARY_FOR_COMPOSE = ["exp", "square", "sigmoid", "softplus", "conjugate", "clamp_both", "softmax", "log_softmax", "reduce_sum", "reduce_lse", "index", "mixing"]


def cases(tier, seed):
    thorough = tier == "thorough"
    folds = BOUNDS[tier]["folds"]
    for nc in node_cases(thorough):
        for f in folds:
            yield {"kind": "node", "spec": nc, "folds": f}
    # 2-node compositions outer(inner(x)) of unary nodes on rank-2 shapes
    for s in shapes(2, 2):
        for inner in UNARY_FOR_COMPOSE:
            for outer in UNARY_FOR_COMPOSE:
                for ax_i in ([0, -1] if inner in ("softmax", "log_softmax", "reduce_sum", "reduce_lse", "index") else [None]):
                    for ax_o in ([0, -1] if outer in ("softmax", "log_softmax", "reduce_sum", "reduce_lse", "index") else [None]):
                        yield {"kind": "compose", "shape": s, "inner": inner, "outer": outer, "ax_i": ax_i, "ax_o": ax_o, "folds": 2}
    # chains the operators build
    for k1, k2, n in itertools.product(DIMS, DIMS, [2, 3]):
        for f in folds:
            yield {"kind": "chain", "chain": "log-softmax", "shape": [k1, n], "folds": f}
            yield {"kind": "chain", "chain": "reducesum-outerprod", "shape": [k1, n], "shape2": [k2, n], "folds": f}
            yield {"kind": "chain", "chain": "logpart-sum", "k1": k1, "k2": k2, "folds": f}
            yield {"kind": "chain", "chain": "kron-refs", "shape": [k1, n], "shape2": [k2, n], "folds": f}
            yield {"kind": "chain", "chain": "index-kron", "shape": [k1, 2 * n], "shape2": [k2, 2 * k2], "folds": f}
    # optimize=True rewrites through the public circuit path
    for s in shapes(2, 3):
        r = len(s)
        for oax in range(r):
            for d2 in DIMS:
                s2 = list(s)
                s2[oax] = d2
                for rax in range(r):
                    for fold in (False, True):
                        yield {"kind": "opt-einsum", "shape": s, "shape2": s2, "outer_axis": oax, "reduce_axis": rax, "fold": fold}
        for ax in range(r):
            for fold in (False, True):
                yield {"kind": "opt-logsoftmax", "shape": s, "axis": ax, "fold": fold}


# ------------------------------------------------------------------------------ building


def leaf(shape, cplx=False):
    from cirkit.symbolic.dtypes import DataType

    return P.TensorParameter(*shape, initializer=NormalInitializer(), dtype=DataType.COMPLEX if cplx else DataType.REAL)


def rand(rng, shape, lo=-1.5, hi=1.5, cplx=False):
    a = rng.uniform(lo, hi, size=shape)
    if cplx:
        a = a + 1j * rng.uniform(-1, 1, size=shape)
    return a


def build_node(spec, rng):
    """Returns (Parameter, {leaf: value})."""
    n = spec["node"]
    s = tuple(spec.get("shape", ()))
    vals = {}

    def L1(shape=s, lo=-1.5, hi=1.5, cplx=False):
        t = leaf(shape, cplx)
        vals[t] = rand(rng, shape, lo, hi, cplx)
        return t

    un = {
        "exp": lambda: (P.ExpParameter(s), L1()),
        "log": lambda: (P.LogParameter(s), L1(lo=0.2, hi=2.0)),
        "square": lambda: (P.SquareParameter(s), L1()),
        "softplus": lambda: (P.SoftplusParameter(s), L1(lo=-3, hi=3)),
        "sigmoid": lambda: (P.SigmoidParameter(s), L1(lo=-3, hi=3)),
        "scaled_sigmoid": lambda: (P.ScaledSigmoidParameter(s, vmin=0.25, vmax=1.75), L1(lo=-3, hi=3)),
        "clamp_min": lambda: (P.ClampParameter(s, vmin=-0.5), L1()),
        "clamp_max": lambda: (P.ClampParameter(s, vmax=0.5), L1()),
        "clamp_both": lambda: (P.ClampParameter(s, vmin=-0.5, vmax=0.5), L1()),
        "conjugate": lambda: (P.ConjugateParameter(s), L1(cplx=True)),
        "clamp_zero_min": lambda: (P.ClampParameter(s, vmin=0.0, vmax=1.0), L1()),
        "clamp_zero_max": lambda: (P.ClampParameter(s, vmin=-1.0, vmax=0.0), L1()),
        "clamp_zero_only": lambda: (P.ClampParameter(s, vmin=0.0), L1()),
        "scaled_sigmoid_zero": lambda: (P.ScaledSigmoidParameter(s, vmin=0.0, vmax=2.0), L1(lo=-3, hi=3)),
        "mixing": lambda: (P.MixingWeightParameter(s), L1()),
    }
    if n in un:
        node, t = un[n]()
        if n in ("clamp_min", "clamp_max", "clamp_both"):
            flat = vals[t].reshape(-1)
            flat[0] = -0.5
            if flat.size > 1:
                flat[-1] = 0.5
        return P.Parameter.from_unary(node, t), vals
    ax = spec.get("axis")
    if n in ("softmax_rowshift", "log_softmax_rowshift"):
        cls = P.SoftmaxParameter if n.startswith("softmax") else P.LogSoftmaxParameter
        t = L1()
        a = ax % len(s)
        shape = [1] * len(s)
        other = [d for d in range(len(s)) if d != a]
        off = np.zeros(s)
        for d in other:
            sh = [1] * len(s)
            sh[d] = s[d]
            off = off - 450.0 * np.arange(s[d]).reshape(sh)
        vals[t] = vals[t] + off - 300.0 * (int(rng.integers(3)))
        return P.Parameter.from_unary(cls(s, axis=ax), t), vals
    if n in ("reduce_sum", "reduce_prod", "reduce_lse", "softmax", "log_softmax"):
        cls = {"reduce_sum": P.ReduceSumParameter, "reduce_prod": P.ReduceProductParameter, "reduce_lse": P.ReduceLSEParameter,
               "softmax": P.SoftmaxParameter, "log_softmax": P.LogSoftmaxParameter}[n]
        return P.Parameter.from_unary(cls(s, axis=ax), L1()), vals
    if n == "index":
        return P.Parameter.from_unary(P.IndexParameter(s, indices=list(spec["indices"]), axis=ax), L1()), vals
    if n in ("sum", "hadamard"):
        cls = P.SumParameter if n == "sum" else P.HadamardParameter
        return P.Parameter.from_binary(cls(s, s), L1(), L1()), vals
    s2 = tuple(spec.get("shape2", ()))
    if n == "kronecker":
        return P.Parameter.from_binary(P.KroneckerParameter(s, s2), L1(), L1(s2)), vals
    if n in ("outer_product", "outer_sum"):
        cls = P.OuterProductParameter if n == "outer_product" else P.OuterSumParameter
        return P.Parameter.from_binary(cls(s, s2, axis=ax), L1(), L1(s2)), vals
    if n in ("gauss_mean", "gauss_stddev", "gauss_logpart"):
        k1, k2 = (spec["k1"],), (spec["k2"],)
        m1, s1, m2, sd2 = L1(k1, -1, 1), L1(k1, 0.5, 1.5), L1(k2, -1, 1), L1(k2, 0.5, 1.5)
        if n == "gauss_mean":
            return P.Parameter.from_nary(P.GaussianProductMean(k1, k1, k2, k2), m1, s1, m2, sd2), vals
        if n == "gauss_logpart":
            return P.Parameter.from_nary(P.GaussianProductLogPartition(k1, k1, k2, k2), m1, s1, m2, sd2), vals
        del vals[m1], vals[m2]
        return P.Parameter.from_binary(P.GaussianProductStddev(k1, k2), s1, sd2), vals
    if n == "poly_product":
        c = bool(spec.get("cplx"))
        return P.Parameter.from_binary(P.PolynomialProduct(s, s2), L1(cplx=c), L1(s2, cplx=c)), vals
    if n == "poly_diff":
        return P.Parameter.from_unary(P.PolynomialDifferential(s, order=spec["order"]), L1()), vals
    if n == "reference":
        t = L1()
        t2 = L1()
        p = P.Parameter.from_binary(P.SumParameter(s, s), P.Parameter.from_input(P.ReferenceParameter(t2)), P.Parameter.from_input(P.ReferenceParameter(t)))
        p._holders = [t, t2]
        return p, vals
    if n == "constant":
        v = {"scalar-int": 3, "scalar-float": -0.75, "scalar-complex": 0.5 - 1.25j,
             "array": rng.uniform(-1, 1, size=s)}[spec["value"]]
        return P.Parameter.from_input(P.ConstantParameter(*s, value=v)), vals
    raise ValueError(n)


def unary_node(name, shape, ax):
    s = tuple(shape)
    if name == "exp":
        return P.ExpParameter(s)
    if name == "square":
        return P.SquareParameter(s)
    if name == "sigmoid":
        return P.SigmoidParameter(s)
    if name == "softplus":
        return P.SoftplusParameter(s)
    if name == "conjugate":
        return P.ConjugateParameter(s)
    if name == "clamp_both":
        return P.ClampParameter(s, vmin=-0.5, vmax=0.5)
    if name == "softmax":
        return P.SoftmaxParameter(s, axis=ax)
    if name == "log_softmax":
        return P.LogSoftmaxParameter(s, axis=ax)
    if name == "reduce_sum":
        return P.ReduceSumParameter(s, axis=ax)
    if name == "reduce_lse":
        return P.ReduceLSEParameter(s, axis=ax)
    if name == "index":
        d = s[ax]
        return P.IndexParameter(s, indices=list(reversed(range(d))) + [0], axis=ax)
    if name == "mixing":
        return P.MixingWeightParameter(s)
    raise ValueError(name)


def build_compose(case, rng):
    s = tuple(case["shape"])
    t = leaf(s)
    vals = {t: rand(rng, s)}
    inner = unary_node(case["inner"], s, case["ax_i"])
    if len(inner.shape) == 0:
        return None, None
    ax_o = case["ax_o"]
    if ax_o is not None and len(inner.shape) < 1:
        return None, None
    if case["outer"] == "mixing" and len(inner.shape) != 2:
        return None, None
    if case["outer"] in ("reduce_sum", "reduce_lse") and len(inner.shape) < 2:
        return None, None
    outer = unary_node(case["outer"], inner.shape, ax_o)
    return P.Parameter.from_sequence(t, inner, outer), vals


def build_chain(case, rng):
    c = case["chain"]
    vals = {}

    def L1(shape, lo=-1.5, hi=1.5):
        t = leaf(tuple(shape))
        vals[t] = rand(rng, tuple(shape), lo, hi)
        return t

    if c == "log-softmax":
        s = tuple(case["shape"])
        return P.Parameter.from_sequence(L1(s), P.SoftmaxParameter(s, axis=1), P.LogParameter(s)), vals
    if c == "reducesum-outerprod":
        s, s2 = tuple(case["shape"]), tuple(case["shape2"])
        op = P.Parameter.from_binary(P.OuterProductParameter(s, s2, axis=0), L1(s), L1(s2))
        return P.Parameter.from_unary(P.ReduceSumParameter(op.shape, axis=1), op), vals
    if c == "logpart-sum":
        k1, k2 = (case["k1"],), (case["k2"],)
        m1, s1, m2, s2 = L1(k1, -1, 1), L1(k1, 0.5, 1.5), L1(k2, -1, 1), L1(k2, 0.5, 1.5)
        lp = P.Parameter.from_nary(P.GaussianProductLogPartition(k1, k1, k2, k2), m1, s1, m2, s2)
        os_ = P.Parameter.from_binary(P.OuterSumParameter(k1, k2, axis=0), L1(k1), L1(k2))
        return P.Parameter.from_binary(P.SumParameter(lp.shape, lp.shape), lp, os_), vals
    if c == "kron-refs":
        s, s2 = tuple(case["shape"]), tuple(case["shape2"])
        a, b = L1(s), L1(s2)
        p = P.Parameter.from_binary(P.KroneckerParameter(s, s2), P.Parameter.from_input(P.ReferenceParameter(a)),
                                    P.Parameter.from_input(P.ReferenceParameter(b)))
        p._holders = [a, b]
        return p, vals
    if c == "index-kron":
        s, s2 = tuple(case["shape"]), tuple(case["shape2"])
        kr = P.Parameter.from_binary(P.KroneckerParameter(s, s2), L1(s), L1(s2))
        n = kr.shape[1]
        idx = list(np.arange(n).reshape(2, -1).T.reshape(-1))
        return P.Parameter.from_unary(P.IndexParameter(kr.shape, indices=[int(i) for i in idx], axis=1), kr), vals
    raise ValueError(c)


# ------------------------------------------------------------------------------ running


def bind(compiler, vals):
    with torch.no_grad():
        for t, a in vals.items():
            tp, idx = compiler.state.retrieve_compiled_parameter(t)
            src = torch.from_numpy(np.ascontiguousarray(a)).to(tp._ptensor.dtype)
            tp._ptensor.data[idx].copy_(src)


def eval_folded(builder, folds, seed_tuple):
    """Compile `folds` independent instances, fold them with the compiler's own folding, bind, evaluate."""
    compiler = TorchCompiler(fold=True)
    params, all_vals, compiled = [], [], []
    built = []
    for i in range(folds):
        rng = np.random.default_rng([*seed_tuple, i])
        p, vals = builder(rng)
        if p is None:
            return None
        built.append((p, vals))
    # referenced tensors live in previously compiled (and folded) graphs, as with derived circuits:
    # compile holder graphs first, in an order different from the order of use, and fold them
    holders = [t for p, _ in built for t in getattr(p, "_holders", [])]
    if holders:
        by_shape = {}
        for t in reversed(holders):
            by_shape.setdefault(t.shape, []).append(t)
        for ts in by_shape.values():
            hg = TC._fold_parameters(compiler, [compiler.compile_parameter(P.Parameter.from_input(t)) for t in ts])
            hg.reset_parameters()
        compiler.state.finish_compilation()
    for p, vals in built:
        params.append(p)
        all_vals.append(vals)
        compiled.append(compiler.compile_parameter(p))
    if folds == 1:
        tp = compiled[0]
        for c in compiled:
            c.reset_parameters()
        bind(compiler, all_vals[0])
        out = tp()
        # also the folded-of-one graph
        tp1 = TC._fold_parameters(compiler, [compiler.compile_parameter(params[0])])
        tp1.reset_parameters()
        bind(compiler, all_vals[0])
        out1 = tp1()
        return params, all_vals, [(tp, out), (tp1, out1)]
    tp = TC._fold_parameters(compiler, compiled)
    tp.reset_parameters()
    for v in all_vals:
        bind(compiler, v)
    return params, all_vals, [(tp, tp())]


def compare(params, all_vals, results, case):
    viols = []
    for tp, out in results:
        out = out.detach().numpy()
        if out.shape[0] != len(params):
            viols.append(("fold-count", f"{out.shape[0]} folds for {len(params)} parameters"))
            continue
        for i, (p, vals) in enumerate(zip(params, all_vals)):
            exp = ref.eval_param(p, vals)
            if tuple(p.shape) != tuple(tp.shape):
                viols.append(("shape-declared", f"symbolic {p.shape} vs compiled {tp.shape}"))
                break
            if tuple(out.shape[1:]) != tuple(p.shape):
                viols.append(("shape-computed", f"declared {p.shape} vs computed {out.shape[1:]}"))
                break
            if not close(out[i], exp, rtol=1e-9, atol=1e-11):
                viols.append(("value", f"fold {i}: max|diff|={maxdiff(out[i], exp):.3e} got={out[i].reshape(-1)[:6]} exp={np.asarray(exp).reshape(-1)[:6]}"))
                break
    return viols


def run_case(case):
    seed = int(os.environ.get("VERIF_SEED", "0"))
    kind = case["kind"]
    if kind in ("opt-einsum", "opt-logsoftmax"):
        return run_opt(case, seed)
    if kind == "node":
        builder = lambda rng: build_node(case["spec"], rng)  # noqa
        name = case["spec"]["node"]
    elif kind == "compose":
        builder = lambda rng: build_compose(case, rng)  # noqa
        name = f"{case['outer']}.{case['inner']}"
    else:
        builder = lambda rng: build_chain(case, rng)  # noqa
        name = case["chain"]
    dims = {"kind": kind, "node": name if kind != "compose" else "compose", "folds": case["folds"]}
    try:
        r = eval_folded(builder, case["folds"], (seed, 11))
    except Exception as e:
        return {"status": "violation", "nontrivial": False, "dims": dims,
                "violations": [{"sig": {"kind": "exception", "node": name, "folded": case["folds"] > 1, **exc_sig(e)}, "detail": traceback.format_exc()[-1500:], "case": case}]}
    if r is None:
        return {"status": "skip", "nontrivial": False}
    params, all_vals, results = r
    viols = compare(params, all_vals, results, case)
    size = int(np.prod(params[0].shape))
    out = {"status": "violation" if viols else "ok", "nontrivial": size >= 2, "dims": dims, "evaluations": len(results),
           "outcome": f"{name}:{tuple(params[0].shape)}", "summary": f"{name} shape {tuple(params[0].shape)} folds {case['folds']}"}
    if viols:
        out["violations"] = [{"sig": {"kind": k, "node": name if kind != "compose" else f"compose:{case['outer']}.{case['inner']}", "folded": case["folds"] > 1},
                              "detail": d, "case": case} for k, d in viols]
    return out


def run_opt(case, seed):
    """ConstantValueLayer(value = reductions of the pattern) compiled with optimize=True vs reference."""
    rng = np.random.default_rng([seed, 13])
    s = tuple(case["shape"])
    vals = {}

    def L1(shape, lo=-1.2, hi=1.2):
        t = leaf(tuple(shape))
        vals[t] = rand(rng, tuple(shape), lo, hi)
        return t

    def to_rank1(p):
        # generic-weighted reductions down to rank 1 (weights keep permutation errors observable)
        while len(p.shape) > 1:
            w = P.ConstantParameter(*p.shape, value=rng.uniform(0.5, 1.5, size=p.shape))
            p = P.Parameter.from_binary(P.HadamardParameter(p.shape, p.shape), p, P.Parameter.from_input(w))
            p = P.Parameter.from_unary(P.ReduceSumParameter(p.shape, axis=len(p.shape) - 1), p)
        return p

    want_types = ("TorchEinsumParameter",) if case["kind"] == "opt-einsum" else ("TorchLogSoftmaxParameter",)
    def make():
        if case["kind"] == "opt-einsum":
            s2 = tuple(case["shape2"])
            op = P.Parameter.from_binary(P.OuterProductParameter(s, s2, axis=case["outer_axis"]), L1(s), L1(s2))
            red = P.Parameter.from_unary(P.ReduceSumParameter(op.shape, axis=case["reduce_axis"]), op)
        else:
            red = P.Parameter.from_sequence(L1(s), P.SoftmaxParameter(s, axis=case["axis"]), P.LogParameter(s))
        return to_rank1(red)

    p1 = make()
    k = p1.shape[0]
    n = 3 if case["fold"] else 1
    layers = [L.ConstantValueLayer(k, value=p1)]
    for j in range(1, n):
        layers.append(L.ConstantValueLayer(k, value=make()))
    if n > 1:
        s_l = L.SumLayer(k, 1, arity=n)
        vals[s_l.weight.output] = rng.uniform(0.5, 1.5, size=s_l.weight.shape)
        circ = Circuit(layers + [s_l], {s_l: layers}, [s_l])
    else:
        circ = Circuit(layers, {}, [layers[0]])
    dims = {"kind": case["kind"], "node": case["kind"], "folds": n}
    from mc.harness import Compiled

    try:
        exp = np.stack(ref.eval_circuit(circ, ref.with_cache(vals), {}))
        outs = {}
        fired = False
        for optimize in (False, True):
            cc = Compiled([circ], "sum-product", case["fold"], optimize)
            cc.bind(vals)
            outs[optimize] = cc.evaluate(circ, [{}])[0]
            if optimize:
                fired = any(type(m).__name__ in want_types for m in cc.cc(circ).modules())
    except Exception as e:
        return {"status": "violation", "nontrivial": False, "dims": dims,
                "violations": [{"sig": {"kind": "exception", "node": case["kind"], **exc_sig(e)}, "detail": traceback.format_exc()[-1500:], "case": case}]}
    viols = []
    for optimize, got in outs.items():
        if not close(got, exp, rtol=1e-9):
            viols.append({"sig": {"kind": "value", "node": case["kind"], "optimize": optimize, "folded": case["fold"]},
                          "detail": f"max|diff|={maxdiff(got, exp):.3e} got={got.reshape(-1)[:5]} exp={exp.reshape(-1)[:5]}", "case": case})
    out = {"status": "violation" if viols else "ok", "nontrivial": fired, "dims": dims, "evaluations": 2, "counters": {"rewrite_fired": int(fired)},
           "outcome": f"{case['kind']}:{fired}", "summary": f"{case['kind']} fired={fired}"}
    if viols:
        out["violations"] = viols
    return out


def finalize(agg):
    issues = []
    if not agg["counters"].get("rewrite_fired"):
        issues.append("no parameter rewrite ever fired under optimize=True")
    return issues
