"""C04 - multiply returns the pointwise product or refuses (E1)."""
from __future__ import annotations

import itertools
import os

from mc import alphabet as A
from mc import pools
from mc.pipecheck import check_pipeline, collapse

PROPERTY = "C04"
LEVEL = "exploration"
RULE = (
    "cases = ordered pairs (c1, c2) of circuits of the bounded grammar over the same variables (independent units, input "
    "kinds, sum arity / mixing, Hadamard / Kronecker, every product-input permutation, multi-output, squares with shared "
    "parameters, conditioned operands, chains (c*c)*c and (c*c)*(c*c)); if multiply returns, output (i,j) must equal "
    "ref(c1)_i (x) ref(c2)_j on every input under every semiring x flags; a raise of a documented error type is a "
    "refusal. Non-trivial: multiply returned and the product was compared with the oracle"
)
ASSUMPTIONS = ["generic / monotone valuations for real parameters (VERIF_SEED)", "refusal types: StructuralPropertyError, ValueError, NotImplementedError, OperatorSignatureNotFound"]
BOUNDS = {"quick": {"max_vars": 3, "units": [1, 2]}, "thorough": {"max_vars": 3, "units": [1, 2, 3]}}
CHUNK = 4

KINDS = ["emb", "cat-logits", "cat-probs", "gau", "gau-lp", "poly1", "poly2"]


def cases(tier, seed):
    thorough = tier == "thorough"
    ks = [1, 2] if not thorough else [1, 2, 3]
    # (a) same structure on both sides, independent units / kinds
    for tree, prod, style, nary in pools.structure_pool(tier):
        for k1, k2 in itertools.product(ks, ks):
            for inp in KINDS:
                if not thorough and inp in ("cat-probs", "gau-lp", "poly1") and (k1, k2) != (2, 2):
                    continue
                numb = "h8" if (k1 + k2) % 2 else "id"
                c1 = dict(tree=tree, prod=prod, style=style, nary=nary, kin=k1, ksum=k1, kout=1, inp=inp, numbering=numb)
                c2 = dict(c1, kin=k2, ksum=k2)
                yield {"mode": "pair", "c1": c1, "c2": c2, "vk": "generic" if inp in ("emb", "poly1", "poly2") else "monotone"}
        # squares (shared parameters), multi-output, chains
        for inp in ["emb", "cat-logits", "gau"]:
            for k in ks:
                c = dict(tree=tree, prod=prod, style=style, nary=nary, kin=k, ksum=k, kout=1, inp=inp, numbering="gap")
                yield {"mode": "square", "c1": c, "vk": "generic" if inp == "emb" else "monotone"}
                if k <= 2:
                    yield {"mode": "square", "c1": dict(c, outputs="two"), "vk": "generic" if inp == "emb" else "monotone"}
            c = dict(tree=tree, prod=prod, style=style, nary=nary, kin=2 if prod == "had" else 1, ksum=2 if prod == "had" else 1, kout=1, inp=inp, numbering="id")
            yield {"mode": "cube", "c1": c, "vk": "monotone"}
            if thorough or prod == "had":
                yield {"mode": "fourth", "c1": dict(c, kin=1, ksum=1), "vk": "monotone"}
    # (b) different structures / mismatching kinds / mixed product types over the same scope (mostly refusals)
    trees3 = A.single_trees([0, 1, 2])
    for t1, t2 in itertools.product(trees3, trees3):
        for p1, p2 in [("had", "had"), ("kro", "kro"), ("had", "kro")]:
            c1 = dict(tree=t1, prod=p1, style="cpt", nary="dense", kin=2, ksum=2, kout=1, inp="emb", numbering="id")
            c2 = dict(tree=t2, prod=p2, style="cpt", nary="dense", kin=2, ksum=2, kout=1, inp="emb", numbering="id")
            yield {"mode": "pair", "c1": c1, "c2": c2, "vk": "generic"}
    for i1, i2 in itertools.permutations(["emb", "cat-logits", "gau", "poly1", "bin-probs"], 2):
        c1 = dict(tree=("P", [0, 1]), prod="had", style="cpt", nary="dense", kin=2, ksum=2, kout=1, inp=i1, numbering="id")
        yield {"mode": "pair", "c1": c1, "c2": dict(c1, inp=i2), "vk": "monotone"}
    # (c) every permutation of the product inputs on one side, and on both sides
    for tree in [("P", [0, 1, 2]), ("P", [("P", [0, 1]), 2]), ("P", [0, 1])]:
        for prod in ["had", "kro"]:
            for numb in ["id", "h8", "h16"]:
                for perm1 in itertools.permutations(range(3)):
                    for perm2 in ([None] + ([list(p) for p in itertools.permutations(range(3))] if thorough else [[2, 0, 1]])):
                        c1 = dict(tree=tree, prod=prod, style="cpt", nary="dense", kin=2, ksum=2, kout=1, inp="emb", numbering=numb, perm=list(perm1))
                        c2 = dict(c1, perm=perm2, kin=1 if prod == "kro" else 2, ksum=1 if prod == "kro" else 2)
                        yield {"mode": "pair", "c1": c1, "c2": c2, "vk": "generic"}
    # (d) sum arity 2 (dense / mixing) on either side with independent unit counts
    mtrees = A.dup_trees([0, 1]) + A.dup_trees([0, 1, 2]) + A.mixed_trees([0, 1, 2])
    for tree in (mtrees[:6] + mtrees[-2:]) if not thorough else mtrees:
        for n1, n2 in itertools.product(["dense", "mixing"], repeat=2):
            for k1, k2 in itertools.product(ks, ks):
                for prod in ["had", "kro"]:
                    c1 = dict(tree=tree, prod=prod, style="cpt", nary=n1, kin=k1, ksum=k1, kout=1, inp="emb", numbering="id")
                    c2 = dict(c1, nary=n2, kin=k2, ksum=k2)
                    yield {"mode": "pair", "c1": c1, "c2": c2, "vk": "generic"}
    # (d') heterogeneous arities: arity-1 sum over one product x arity-2 sum over two products with the same partition
    for t in A.single_trees([0, 1]) + A.single_trees([0, 1, 2]):
        if isinstance(t, int):
            continue
        for dup in (("M", [t[1], t[1]]), ("M", [t[1], list(reversed(t[1]))])):
            for prod in ["had", "kro"]:
                for k1, k2 in itertools.product(ks, ks):
                    for nary in ["dense", "mixing"]:
                        for inp in (["emb", "cat-logits"] if (k1, k2) == (2, 2) else ["emb"]):
                            ca = dict(tree=t, prod=prod, style="cpt", nary="dense", kin=k1, ksum=k1, kout=1, inp=inp, numbering="id")
                            cb = dict(tree=dup, prod=prod, style="cpt", nary=nary, kin=k2, ksum=k2, kout=1, inp=inp, numbering="id")
                            vk = "generic" if inp == "emb" else "monotone"
                            yield {"mode": "pair", "c1": ca, "c2": cb, "vk": vk}
                            yield {"mode": "pair", "c1": cb, "c2": ca, "vk": vk}
    # single variable with an n-ary sum over two input layers (arity-2 sums without any product)
    for k1, k2 in itertools.product(ks, ks):
        for inp in ["emb", "cat-logits", "gau", "poly1"]:
            for a1, a2 in [(2, 2), (1, 2), (2, 1), (3, 2)]:
                yield {"mode": "pair-flat", "k1": k1, "k2": k2, "a1": a1, "a2": a2, "inp": inp, "vk": "generic" if inp in ("emb", "poly1") else "monotone"}
    # (e) operands conditioned by evidence; product with an integral
    for tree in A.REPRESENTATIVE_TREES[:2] + [("P", [0, 1])]:
        for prod in ["had", "kro"]:
            for inp in ["emb", "cat-logits", "gau"]:
                c = dict(tree=tree, prod=prod, style="cpt", nary="dense", kin=2, ksum=2, kout=1, inp=inp, numbering="id")
                for ov in pools.var_ids(tree, "id"):
                    yield {"mode": "evi-square", "c1": c, "obs": {str(ov): 0.3 if inp == "gau" else 1}, "vk": "monotone"}
                    yield {"mode": "int-square", "c1": c, "z": [ov], "vk": "monotone"}


def flat_spec(k, inp, arity=2):
    ins = [A.input_spec(inp, 0, k, 0) for _ in range(arity)]
    return {"layers": ins + [{"t": "sum", "in": list(range(arity)), "k": k, "w": "dense"}], "outputs": [arity]}


def pipeline_of(case):
    m = case["mode"]
    if m == "pair-flat":
        return {"circuits": [flat_spec(case["k1"], case["inp"], case.get("a1", 2)), flat_spec(case["k2"], case["inp"], case.get("a2", 2))],
                "ops": [{"op": "multiply", "args": [0, 1]}]}, [2]
    s1 = pools.spec_from(case["c1"])
    if s1 is None:
        return None, None
    if m == "pair":
        s2 = pools.spec_from(case["c2"])
        if s2 is None:
            return None, None
        return {"circuits": [s1, s2], "ops": [{"op": "multiply", "args": [0, 1]}]}, [2]
    if m == "square":
        return {"circuits": [s1], "ops": [{"op": "multiply", "args": [0, 0]}]}, [1]
    if m == "cube":
        return {"circuits": [s1], "ops": [{"op": "multiply", "args": [0, 0]}, {"op": "multiply", "args": [1, 0]}]}, [2]
    if m == "fourth":
        return {"circuits": [s1], "ops": [{"op": "multiply", "args": [0, 0]}, {"op": "multiply", "args": [1, 1]}]}, [2]
    if m == "evi-square":
        return {"circuits": [s1], "ops": [{"op": "evidence", "args": [0], "obs": case["obs"]}, {"op": "multiply", "args": [1, 1]}]}, [2]
    if m == "int-square":
        return {"circuits": [s1], "ops": [{"op": "integrate", "args": [0], "scope": case["z"]}, {"op": "multiply", "args": [1, 1]}]}, [2]
    raise ValueError(m)


def run_case(case):
    seed = int(os.environ.get("VERIF_SEED", "0"))
    pspec, targets = pipeline_of(case)
    if pspec is None:
        return {"status": "skip", "nontrivial": False}
    r = check_pipeline(pspec, targets, vk=case["vk"], seed=seed, max_rows=18, any_symbolic_error_is_refusal=True)
    c1 = case.get("c1", {})
    dims = {"mode": case["mode"], "inp": c1.get("inp", case.get("inp")), "prod": c1.get("prod", "-"), "style": c1.get("style", "-"), "nary": c1.get("nary", "-")}
    if r["status"] == "refused":
        return {"status": "refused", "refusal": r["refusal"], "nontrivial": False, "dims": dims, "outcome": "refused:" + r["refusal"]}
    out = {"status": r["status"], "nontrivial": r["counters"].get("compared", 0) > 0, "counters": r["counters"],
           "evaluations": max(1, r["counters"].get("configs", 0)), "dims": dims, "outcome": f"{case['mode']}:{r.get('rows')}",
           "summary": f"{r['counters']}"}
    if r["violations"]:
        out["violations"] = [dict(v, case=case) for v in collapse(r["violations"])]
    return out
