"""C08 - structural-property predicates agree with their definitions (E1, symbolic only)."""
from __future__ import annotations

import itertools

from cirkit.symbolic.circuit import are_compatible

from mc import alphabet as A
from mc import structs as S

PROPERTY = "C08"
LEVEL = "exploration"
RULE = (
    "all symbolic circuit structures with <= N layers over <= 3 variables (input scopes from a menu incl. empty and "
    "two-variable scopes, sums of arity 1..3 and products of arity 2..3 over any earlier layers, <= 2 sinks as outputs), "
    "each also with reversed product-input lists and under 4 variable renamings; all ordered pairs of structures "
    "with <= M layers. Oracle: set-based definitions computed from plain frozensets. Non-trivial: a structure with "
    "at least one inner layer (singles) / a pair over the same scope where both have a product (pairs)"
)
ASSUMPTIONS = ["structures have one unit per layer: the predicates depend on scopes only"]
BOUNDS = {"quick": {"max_layers": 5, "pair_max_layers": 4}, "thorough": {"max_layers": 6, "pair_max_layers": 4}}
CHUNK = 1
SHARDS = 64

RENAMES = {name: {i: ids[i] for i in range(3)} for name, ids in A.NUMBERINGS.items() if name != "id"}


def cases(tier, seed):
    n = BOUNDS[tier]["max_layers"]
    for p in S.prefixes(min(n, 4)):
        yield {"type": "singles", "prefix": p, "n": n}
    for s in range(SHARDS):
        yield {"type": "pairs", "shard": s, "n": BOUNDS[tier]["pair_max_layers"]}
    # every smooth + decomposable but NOT structured-decomposable structure with <= 6 layers (and two hand-written 8-layer
    # ones with a sum root), paired in both orders with the whole pair pool and with each other
    for k in range(len(nonsd_pool())):
        yield {"type": "pairs-nonsd", "k": k, "n": BOUNDS[tier]["pair_max_layers"]}


def preds(c):
    return (c.is_smooth, c.is_decomposable, c.is_structured_decomposable)


def run_case(case):
    if case["type"] == "singles":
        return run_singles(case)
    if case["type"] == "pairs-nonsd":
        return run_pairs_nonsd(case)
    return run_pairs(case)


def run_singles(case):
    viols = {}
    n_struct = 0
    n_nontrivial = 0
    counters = {"structures": 0, "variants": 0, "smooth": 0, "decomposable": 0, "sd": 0}

    def add(kind, struct, detail):
        if kind not in viols or len(str(struct)) < len(str(viols[kind]["case"]["struct"])):
            viols[kind] = {"sig": {"kind": kind}, "detail": detail, "case": {"type": "single", "struct": struct}}

    for struct in S.completions(case["prefix"], case["n"]):
        n_struct += 1
        r = check_struct(struct, add, counters)
        n_nontrivial += 1 if any(t != "in" for t, _ in struct) else 0
    res = {"status": "violation" if viols else "ok", "nontrivial": n_nontrivial > 0, "nontrivial_n": max(0, n_nontrivial - 1),
           "evaluations": n_struct, "counters": counters, "dims": {"n_inputs": len(case["prefix"])},
           "summary": f"{n_struct} structures"}
    if viols:
        res["violations"] = list(viols.values())
    return res


def check_struct(struct, add, counters):
    c = S.build(struct)
    got = preds(c)
    sm, de = S.ref_properties(struct)
    counters["structures"] += 1
    counters["smooth"] += int(sm)
    counters["decomposable"] += int(de)
    if got[0] != sm:
        add("smooth-flag", struct, f"is_smooth={got[0]} definition={sm}")
    if got[1] != de:
        add("decomposable-flag", struct, f"is_decomposable={got[1]} definition={de}")
    f = S.factorizations(struct)
    if got[2]:
        counters["sd"] += 1
        if not (sm and de and S.same_split(f)):
            add("sd-unsound", struct, f"reported structured-decomposable but smooth={sm} decomposable={de} factorizations={f}")
    # order of product inputs
    for variant in ("rev",):
        cv = S.build(struct, perm_products=variant)
        counters["variants"] += 1
        gv = preds(cv)
        if gv != got:
            add("perm-dependence", struct, f"predicates {got} change to {gv} when product inputs are listed in reverse order")
    # all permutations of the first product with 3 inputs
    for i, (t, arg) in enumerate(struct):
        if t == "prod" and len(arg) == 3:
            for perm in itertools.permutations(range(3)):
                gv = preds(S.build(struct, perm_products={i: list(perm)}))
                counters["variants"] += 1
                if gv != got:
                    add("perm-dependence", struct, f"predicates {got} change to {gv} under permutation {perm} of product {i}")
            break
    for name, ren in RENAMES.items():
        gv = preds(S.build(struct, rename=ren))
        counters["variants"] += 1
        if gv != got:
            add("rename-dependence", struct, f"predicates {got} change to {gv} under renaming {name}")
    return got


_POOL = {}


def pool(n):
    if n not in _POOL:
        structs = []
        seen = set()
        for p in S.prefixes(min(n, 4)):
            for s in S.completions(p, n):
                k = repr(s)
                if k not in seen:
                    seen.add(k)
                    structs.append(s)
        _POOL[n] = [(s, S.build(s), S.scopes_of(s), S.factorizations(s), S.ref_properties(s)) for s in structs]
    return _POOL[n]


_NONSD = []


def nonsd_pool():
    if not _NONSD:
        seen = set()
        for n in (5, 6):
            for p in S.prefixes(4):
                if len(p) < 3:
                    continue
                for st in S.completions(p, n):
                    sm, dec = S.ref_properties(st)
                    if sm and dec and not S.same_split(S.factorizations(st)) and repr(st) not in seen:
                        seen.add(repr(st))
                        _NONSD.append(st)
        ins = [["in", [0]], ["in", [1]], ["in", [2]]]
        _NONSD.append(ins + [["prod", [1, 2]], ["prod", [0, 1]], ["prod", [0, 3]], ["prod", [4, 2]], ["sum", [5, 6]]])
        _NONSD.append(ins + [["prod", [0, 2]], ["prod", [0, 1]], ["prod", [1, 3]], ["prod", [4, 2]], ["sum", [6, 5]]])
    return _NONSD


def run_pairs_nonsd(case):
    sa = nonsd_pool()[case["k"]]
    ca, fa = S.build(sa), S.factorizations(sa)
    viols = {}
    counters = {"pairs": 0, "compatible": 0, "same_scope_pairs": 0}

    def add(kind, a, b, detail):
        if kind not in viols:
            viols[kind] = {"sig": {"kind": kind}, "detail": detail, "case": {"type": "pair", "a": a, "b": b}}

    others = [(sb, cb, fb) for (sb, cb, _, fb, _) in pool(case["n"])] + [(sb, S.build(sb), S.factorizations(sb)) for sb in nonsd_pool()]
    for sb, cb, fb in others:
        counters["pairs"] += 2
        check_pair(sa, ca, fa, None, sb, cb, fb, None, add, counters)
        check_pair(sb, cb, fb, None, sa, ca, fa, None, add, counters)
    res = {"status": "violation" if viols else "ok", "nontrivial": True, "nontrivial_n": len(others), "evaluations": counters["pairs"],
           "counters": counters, "dims": {"type": "pairs-nonsd"}, "summary": f"{counters['pairs']} pairs with a non-structured-decomposable member"}
    if viols:
        res["violations"] = list(viols.values())
    return res


def run_pairs(case):
    items = pool(case["n"])
    viols = {}
    counters = {"pairs": 0, "compatible": 0, "same_scope_pairs": 0}
    nontrivial = 0

    def add(kind, a, b, detail):
        if kind not in viols:
            viols[kind] = {"sig": {"kind": kind}, "detail": detail, "case": {"type": "pair", "a": a, "b": b}}

    for i, (sa, ca, sca, fa, pa) in enumerate(items):
        if i % SHARDS != case["shard"]:
            continue
        for j, (sb, cb, scb, fb, pb) in enumerate(items):
            counters["pairs"] += 1
            r = check_pair(sa, ca, fa, pa, sb, cb, fb, pb, add, counters)
            if fa and fb:
                nontrivial += 1
    res = {"status": "violation" if viols else "ok", "nontrivial": nontrivial > 0, "nontrivial_n": max(0, nontrivial - 1),
           "evaluations": counters["pairs"], "counters": counters, "dims": {"type": "pairs"}, "summary": f"{counters['pairs']} pairs"}
    if viols:
        res["violations"] = list(viols.values())
    return res


def check_pair(sa, ca, fa, pa, sb, cb, fb, pb, add, counters):
    ab = are_compatible(ca, cb)
    ba = are_compatible(cb, ca)
    if ab != ba:
        add("compat-asymmetric", sa, sb, f"are_compatible(a,b)={ab} but are_compatible(b,a)={ba}")
    if ab:
        counters["compatible"] += 1
        if not S.same_split(fa, fb):
            add("compat-unsound", sa, sb, f"reported compatible but products over the same scope split differently: {fa} / {fb}")
    # invariance under product-input order and renaming (only for the diagonal-ish subset to bound the cost)
    if ca.scope == cb.scope and (fa or fb):
        counters["same_scope_pairs"] += 1
        v = are_compatible(S.build(sa, perm_products="rev"), cb)
        if v != ab:
            add("compat-perm-dependence", sa, sb, f"are_compatible changes {ab}->{v} when a lists its product inputs in reverse order")
        ren = RENAMES["h8"]
        v = are_compatible(S.build(sa, rename=ren), S.build(sb, rename=ren))
        if v != ab:
            add("compat-rename-dependence", sa, sb, f"are_compatible changes {ab}->{v} under renaming h8")
    return ab


def replay_case(case):
    """Used for replay files, whose case is a single structure or a pair."""
    viols = {}

    def add(kind, *args):
        viols[kind] = {"sig": {"kind": kind}, "detail": args[-1]}

    if case["type"] == "single":
        check_struct(case["struct"], lambda k, s, d: add(k, d), {"structures": 0, "variants": 0, "smooth": 0, "decomposable": 0, "sd": 0})
    else:
        sa, sb = case["a"], case["b"]
        ca, cb = S.build(sa), S.build(sb)
        check_pair(sa, ca, S.factorizations(sa), None, sb, cb, S.factorizations(sb), None, lambda k, a, b, d: add(k, d),
                   {"pairs": 0, "compatible": 0, "same_scope_pairs": 0})
    return viols


_orig_run_case = run_case


def run_case(case):  # noqa: F811  (dispatch incl. replay shapes)
    if case["type"] in ("single", "pair"):
        v = replay_case(case)
        return {"status": "violation" if v else "ok", "nontrivial": True, "violations": list(v.values()), **({"sig": next(iter(v.values()))["sig"], "detail": next(iter(v.values()))["detail"]} if v else {})}
    return _orig_run_case(case)
