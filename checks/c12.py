"""C12 - circuits built with normalised parameterisations are normalised (E1 + E2 histories)."""
from __future__ import annotations

import functools
import itertools
import os
import traceback

import numpy as np
import torch

from cirkit.symbolic import functional as SF
from cirkit.symbolic import parameters as P
from cirkit.symbolic.layers import BinomialLayer, CategoricalLayer, GaussianLayer
from cirkit.symbolic.parameters import mixing_weight_factory
from cirkit.templates import data_modalities, pgms, tensor_factorizations
from cirkit.templates.utils import Parameterization, parameterization_to_factory

from checks import c16
from mc import ref
from mc.harness import FLAGS, Compiled, circuit_tensor_params, close, maxdiff
from mc.util import exc_sig

PROPERTY = "C12"
LEVEL = "exploration"
RULE = (
    "programs = region graphs of every construction algorithm (<= 4 variables) x {cp, cp-t, tucker} x input layer {categorical, "
    "binomial, gaussian} x (input units, sum units) in {1,2,3}^2 x num_classes {1,2} x n-ary sums {mixing, dense softmax}; image_data / "
    "tabular_data with every region-graph name; hmm, fully_factorized; cp / tucker with softmax parameterisations; each compiled under "
    "(fold, optimize) x {sum-product, lse-sum}; the unconstrained tensors are set to generic and to extreme (+-30) values, and a short "
    "history {SGD step, reset, large update} is explored breadth-first (E2); oracle: every value >= 0, brute-force sum over the COMPLETE "
    "domain (quadrature for <= 2 Gaussian variables; symbolic integrate for 256-state image defaults) equals 1 per output unit, and every "
    "in-support input is finite in log space. Non-trivial: the circuit has at least one sum layer and >= 2 inputs in its domain"
)
ASSUMPTIONS = ["256-state image_data defaults: Z through the compiled integrate circuit (validated by C03) instead of brute force",
               "Gaussian inputs: moderate valuations only (quadrature window), 1e-6 relative"]
BOUNDS = {"quick": {"max_vars": 3, "history_depth": 2}, "thorough": {"max_vars": 4, "history_depth": 3}}
CHUNK = 2


def small_rgs(tier):
    """(name, case for c16.make_rg) with <= max_vars variables."""
    mv = BOUNDS[tier]["max_vars"]
    out = []
    for n in range(1, mv + 1):
        for reps in (1, 2):
            for sd in (0, 1):
                out.append({"alg": "rbt", "n": n, "depth": None, "reps": reps, "seed": sd})
            out.append({"alg": "linear", "n": n, "reps": reps, "ordering": None, "randomize": reps == 2, "seed": 1})
            out.append({"alg": "ff", "n": n, "reps": reps})
    for shape in ([1, 1, 2], [1, 2, 2], [2, 1, 2], [1, 1, 3], [1, 2, 1]):
        if int(np.prod(shape)) > mv:
            continue
        out.append({"alg": "quadtree", "shape": shape, "splits": 2})
        out.append({"alg": "quadtree", "shape": shape, "splits": 4})
        out.append({"alg": "quadgraph", "shape": shape})
        out.append({"alg": "pd", "shape": shape, "delta": 1, "max_depth": None})
    for t in ([-1, 0], [-1, 0, 0], [-1, 0, 1], [1, -1, 1], [-1, 0, 1, 1], [-1, 0, 0, 0]):
        if len(t) <= mv:
            out.append({"alg": "tree2rg", "tree": t, "form": "int64"})
    seen, uniq = set(), []
    for c in out:
        k = repr(sorted(c.items()))
        if k not in seen:
            seen.add(k)
            uniq.append(c)
    return uniq


def cases(tier, seed):
    thorough = tier == "thorough"
    units = [(1, 1), (2, 2), (3, 3), (2, 3), (3, 2), (1, 2)] if thorough else [(1, 1), (2, 2), (2, 3), (3, 2)]
    for rg in small_rgs(tier):
        for sp in ("cp", "cp-t", "tucker"):
            for inp in ("categorical", "binomial", "gaussian"):
                nvars = len(rg.get("tree", [])) or rg.get("n") or int(np.prod(rg["shape"]))
                if inp == "gaussian" and nvars > 2:
                    continue
                for ki, ks in units:
                    if sp in ("cp-t", "tucker") and ki != ks:
                        continue
                    if sp == "tucker" and ks == 3 and nvars > 3:
                        continue
                    for nc in (1, 2):
                        for mixing in (True, False):
                            if not thorough and (nc == 2) != mixing and (ki, ks) != (2, 2):
                                continue
                            yield {"kind": "rg", "rg": rg, "sp": sp, "inp": inp, "ki": ki, "ks": ks, "nc": nc, "mixing": mixing}
    # the smallest region graphs in which two mixing layers of the same shape sit side by side (one folded mixing-weight node):
    # 12 and 9 binary variables, Z by brute force over 4096 / 512 assignments
    for rg in ({"alg": "quadgraph", "shape": [1, 3, 4]}, {"alg": "pd", "shape": [1, 3, 3], "delta": 1, "max_depth": None}):
        for sp in ("cp", "cp-t"):
            for inp in ("categorical", "binomial"):
                for k in (2, 3):
                    yield {"kind": "rg", "rg": rg, "sp": sp, "inp": inp, "ki": k, "ks": k, "nc": 1, "mixing": True}
    for rgname in ("quad-tree-2", "quad-tree-4", "quad-graph", "random-binary-tree", "poon-domingos"):
        for shape in ([1, 1, 2], [1, 2, 2], [2, 1, 2]):
            for sp in ("cp", "cp-t", "tucker"):
                for inp in ("categorical", "binomial", "gaussian"):
                    for mixing in (True, False):
                        if inp == "gaussian" and int(np.prod(shape)) > 2:
                            continue
                        yield {"kind": "image", "rgname": rgname, "shape": shape, "sp": sp, "inp": inp, "k": 2, "nc": 1, "mixing": mixing}
    for rgname in ("random-binary-tree", "chow-liu-tree"):
        for nf in (2, 3, 4) if thorough else (2, 3):
            for sp in ("cp", "cp-t", "tucker"):
                for lay in ("categorical", "binomial", "mixed"):
                    if rgname == "chow-liu-tree" and lay == "binomial":
                        continue  # documented NotImplementedError of ChowLiuTree for non categorical/gaussian data
                    for mixing in (True, False):
                        yield {"kind": "tabular", "rgname": rgname, "nf": nf, "sp": sp, "lay": lay, "k": 2, "nc": 2 if mixing else 1, "mixing": mixing}
    for n in (1, 2, 3, 4) if thorough else (1, 2, 3):
        for ordering in itertools.permutations(range(n)):
            for ks in (1, 2, 3):
                for inp in ("categorical", "binomial", "gaussian"):
                    if inp == "gaussian" and n > 2:
                        continue
                    if not thorough and n == 3 and ks == 3:
                        continue
                    yield {"kind": "hmm", "ordering": list(ordering), "ks": ks, "inp": inp}
        for inp in ("categorical", "binomial", "gaussian"):
            if inp == "gaussian" and n > 2:
                continue
            yield {"kind": "ff", "n": n, "inp": inp}
    for shape in ([2], [2, 3], [3, 2, 2], [2, 2, 2]):
        for rank in (1, 2, 3):
            for inp in ("categorical", "binomial"):
                yield {"kind": "cp", "shape": shape, "rank": rank, "inp": inp}
                if len(shape) >= 2:
                    yield {"kind": "tucker", "shape": shape, "rank": rank, "inp": inp}
    # histories (E2) on representatives of every template family
    for rg in [{"alg": "quadgraph", "shape": [1, 2, 2]}, {"alg": "rbt", "n": 3, "depth": None, "reps": 2, "seed": 0}, {"alg": "linear", "n": 3, "reps": 2, "ordering": None, "randomize": True, "seed": 1}]:
        for sp in ("cp", "cp-t", "tucker"):
            for mixing in (True, False):
                yield {"kind": "rg", "rg": rg, "sp": sp, "inp": "categorical", "ki": 2, "ks": 2, "nc": 2 if mixing else 1, "mixing": mixing, "history": True}
        yield {"kind": "rg", "rg": rg, "sp": "cp", "inp": "binomial", "ki": 2, "ks": 2, "nc": 1, "mixing": True, "history": True}
    yield {"kind": "hmm", "ordering": [2, 0, 1], "ks": 2, "inp": "categorical", "history": True}
    yield {"kind": "hmm", "ordering": [1, 0], "ks": 3, "inp": "binomial", "history": True}
    yield {"kind": "ff", "n": 3, "inp": "categorical", "history": True}
    yield {"kind": "cp", "shape": [2, 3], "rank": 2, "inp": "categorical", "history": True}
    yield {"kind": "tucker", "shape": [2, 2, 2], "rank": 2, "inp": "categorical", "history": True}
    yield {"kind": "tabular", "rgname": "random-binary-tree", "nf": 3, "sp": "cp", "lay": "mixed", "k": 2, "nc": 2, "mixing": True, "history": True}


SOFTMAX = Parameterization(activation="softmax", initialization="normal")


def build(case):
    k = case["kind"]
    if k == "rg":
        rg = c16.make_rg(case["rg"])
        swf = parameterization_to_factory(SOFTMAX)
        nary = functools.partial(mixing_weight_factory, param_factory=swf) if case["mixing"] else swf
        inp = {"categorical": lambda s, n: CategoricalLayer(s, n, num_categories=2 + (min(s) % 2) if len(rg.scope) <= 3 else 2),
               "binomial": lambda s, n: BinomialLayer(s, n, total_count=1 + (min(s) % 2)),
               "gaussian": lambda s, n: GaussianLayer(s, n)}[case["inp"]]
        return rg.build_circuit(input_factory=inp, sum_product=case["sp"], sum_weight_factory=swf, nary_sum_weight_factory=nary,
                                num_input_units=case["ki"], num_sum_units=case["ks"], num_classes=case["nc"])
    if k == "image":
        return data_modalities.image_data(tuple(case["shape"]), case["rgname"], input_layer=case["inp"], num_input_units=case["k"],
                                          sum_product_layer=case["sp"], num_sum_units=case["k"], num_classes=case["nc"], use_mixing_weights=case["mixing"])
    if k == "tabular":
        nf = case["nf"]
        menu = {"categorical": {"name": "categorical", "args": {"num_categories": 3}}, "binomial": {"name": "binomial", "args": {"total_count": 2}}}
        if case["lay"] == "mixed":
            layers = [menu["categorical"] if i % 2 == 0 else {"name": "binomial", "args": {"total_count": 1 + i}} for i in range(nf)]
        else:
            layers = menu[case["lay"]]
        data = None
        if case["rgname"] == "chow-liu-tree":
            g = torch.Generator().manual_seed(3 + nf)
            base = torch.randint(0, 2, (300, 1), generator=g)
            cols = [base]
            for i in range(1, nf):
                flip = (torch.rand(300, 1, generator=g) < 0.1 * (i + 1)).long()
                cols.append((cols[i - 1] + flip) % 2)
            data = torch.cat(cols, dim=1).double()
            if isinstance(layers, list):
                layers = [dict(l) for l in layers]
                layers = [{"name": "categorical", "args": {"num_categories": 2 + i % 2}} for i in range(nf)]
        return data_modalities.tabular_data(case["rgname"], num_features=nf if data is None else None, data=data, input_layers=layers,
                                            num_input_units=case["k"], sum_product_layer=case["sp"], num_sum_units=case["k"], num_classes=case["nc"],
                                            use_mixing_weights=case["mixing"])
    if k == "hmm":
        n = len(case["ordering"])
        kw = {"categorical": [{"num_categories": 2 + (i % 2)} for i in range(n)], "binomial": [{"total_count": 1 + (i % 2)} for i in range(n)], "gaussian": None}[case["inp"]]
        return pgms.hmm(case["ordering"], input_layer=case["inp"], num_latent_states=case["ks"], input_layer_kwargs=kw)
    if k == "ff":
        n = case["n"]
        kw = {"categorical": [{"num_categories": 2 + (i % 2)} for i in range(n)], "binomial": [{"total_count": 1 + (i % 2)} for i in range(n)], "gaussian": None}[case["inp"]]
        return pgms.fully_factorized(n, input_layer=case["inp"], input_layer_kwargs=kw)
    if k in ("cp", "tucker"):
        ip = {"probs": SOFTMAX} if case["inp"] == "categorical" else {"probs": Parameterization(activation="sigmoid")}
        if k == "cp":
            return tensor_factorizations.cp(tuple(case["shape"]), case["rank"], input_layer=case["inp"], input_params=ip, weight_param=SOFTMAX)
        return tensor_factorizations.tucker(tuple(case["shape"]), case["rank"], input_layer=case["inp"], input_params=ip, core_param=SOFTMAX)
    raise ValueError(k)


def free_tensors(sc):
    return [t for t in circuit_tensor_params(sc) if not isinstance(t, P.ConstantParameter) and t.learnable]


def softmax_inputs(sc):
    """Tensors whose (only) consumer is a softmax node: softmax is invariant to a per-row shift of its input."""
    out = set()
    for sl in sc.layers:
        for p in sl.params.values():
            for n in p.nodes:
                if isinstance(n, P.SoftmaxParameter):
                    for i in p.node_inputs(n):
                        if isinstance(i, P.TensorParameter) and len(i.shape) == 2 and n.axis == 1:
                            out.add(i)
    return out


def valuation(ts, kind, seed, shiftable=()):
    val = {}
    for i, t in enumerate(ts):
        rng = np.random.default_rng([seed, i, 31])
        if kind == "rowshift":
            a = rng.uniform(-1.5, 1.5, size=t.shape)
            if t in shiftable:
                # rows (and tensors) far apart: a correct softmax normalises each row on its own
                a = a - 400.0 * np.arange(t.shape[0])[:, None] - 350.0 * (i % 3)
            val[t] = a
        elif kind == "generic":
            val[t] = rng.uniform(-1.5, 1.5, size=t.shape)
        else:  # extreme
            val[t] = rng.choice([-30.0, 30.0, -3.0, 0.5], size=t.shape)
    return val


def check_normalised(sc, val, dom, big, viols, counters, where, case):
    """Compare compiled circuits (all flags, two semirings) with Z = 1 / non-negativity / finiteness."""
    vs = sorted(sc.scope)
    nvars = max(vs) + 1
    cont = [v for v in vs if dom[v][0] == "cont"]
    rows = None if big else ref.assignments(dom, cont_grid=(-0.8, 0.1, 0.9))
    for semiring in ("sum-product", "lse-sum"):
        for fold, optimize in FLAGS:
            cfg = {"semiring": semiring, "fold": fold, "optimize": optimize}
            try:
                try:
                    circuits = [sc] + ([SF.integrate(sc)] if (big or cont) else [])
                except Exception as e:  # no integration rule (binomial): the big domain cannot be checked
                    if type(e).__name__ == "OperatorSignatureNotFound" and big:
                        counters["uncheckable_big_domain"] = counters.get("uncheckable_big_domain", 0) + 1
                        return
                    raise
                cc = Compiled(circuits, semiring, fold, optimize)
                cc.bind(val)
                counters["configs"] += 1
                if big or cont:
                    z = cc.evaluate(circuits[1], [{}])[0]
                    if not close(z, np.ones_like(z), rtol=1e-8):
                        viols.append({"sig": {"kind": "partition-function", "via": "integrate", "where": where, **cfg}, "detail": f"Z = {z.reshape(-1)[:4]}"})
                    if big:
                        continue
                raw = cc.evaluate_raw(sc, rows, nvars).detach()
                lin = cc.to_linear(raw)
                if semiring == "lse-sum" and not bool(torch.all(torch.isfinite(raw))):
                    viols.append({"sig": {"kind": "non-finite-log-value", "where": where, **cfg}, "detail": f"log-space outputs {raw.reshape(-1)[:6]}"})
                    continue
                if np.any(lin.real < -1e-12) or np.any(np.abs(lin.imag) > 1e-12):
                    viols.append({"sig": {"kind": "negative-value", "where": where, **cfg}, "detail": f"min value {lin.real.min()}"})
                if not cont:
                    z = lin.sum(axis=0)
                    counters["rows"] += lin.shape[0]
                    if not close(z, np.ones_like(z), rtol=1e-9):
                        viols.append({"sig": {"kind": "partition-function", "via": "brute-force", "where": where, **cfg}, "detail": f"sum over the domain = {z.reshape(-1)[:4]}"})
            except Exception as e:
                viols.append({"sig": {"kind": "exception", "where": where, **exc_sig(e), **cfg}, "detail": traceback.format_exc()[-1000:]})
    # reference: brute force / quadrature of the numpy model (independent of the compiler)
    if not big and len(cont) <= 1 and (not cont or len(vs) <= 2):
        cval = ref.with_cache(val)
        dsize = int(np.prod([d[1] for d in dom.values() if d[0] == "disc"])) if dom else 1
        if dsize > 4096:
            return
        z = ref.integrate_ref(sc, cval, vs, {}, dom, gl_nodes=320)
        if not close(z, np.ones_like(z), rtol=1e-6 if cont else 1e-9):
            viols.append({"sig": {"kind": "partition-function", "via": "reference", "where": where}, "detail": f"reference Z = {z.reshape(-1)[:4]}"})


def run_case(case):
    seed = int(os.environ.get("VERIF_SEED", "0"))
    dims = {"kind": case["kind"], "sp": case.get("sp", "-"), "inp": case.get("inp", case.get("lay", "-")), "mixing": case.get("mixing", "-")}
    try:
        sc = build(case)
    except ValueError as e:
        if "Cannot build" in str(e):
            return {"status": "refused", "refusal": "ValueError: Cannot build (unit mismatch)", "nontrivial": False, "dims": dims}
        if case["kind"] in ("cp", "tucker") and len(case["shape"]) == 1:
            return {"status": "refused", "refusal": "ValueError: one-dimensional shape (product arity < 2)", "nontrivial": False, "dims": dims}
        return {"status": "violation", "nontrivial": False, "dims": dims,
                "violations": [{"sig": {"kind": "template-raised", "template": case["kind"], **exc_sig(e)}, "detail": traceback.format_exc()[-1000:], "case": case}]}
    except Exception as e:
        return {"status": "violation", "nontrivial": False, "dims": dims,
                "violations": [{"sig": {"kind": "template-raised", "template": case["kind"], **exc_sig(e)}, "detail": traceback.format_exc()[-1000:], "case": case}]}
    dom = ref.var_domains(sc)
    size = 1
    for d in dom.values():
        size *= d[1] if d[0] == "disc" else 1
    big = size > 70000
    ts = free_tensors(sc)
    cont = any(d[0] == "cont" for d in dom.values())
    viols = []
    counters = {"configs": 0, "rows": 0, "history_states": 0}
    kinds = ["generic"] + ([] if cont else ["extreme"]) + ["rowshift"]
    shiftable = softmax_inputs(sc)
    for vk in kinds:
        check_normalised(sc, valuation(ts, vk, seed, shiftable), dom, big, viols, counters, vk, case)
    if case.get("history"):
        viols += run_history(sc, ts, dom, seed, counters)
    uniq = {}
    from mc.pipecheck import collapse

    for v in collapse(viols):
        uniq.setdefault(repr(sorted(v["sig"].items())), dict(v, case=case))
    nsum = sum(1 for _ in sc.sum_layers)
    out = {"status": "violation" if uniq else "ok", "nontrivial": nsum >= 1 and (size >= 2 or cont), "dims": dims, "counters": counters,
           "evaluations": max(1, counters["configs"]), "outcome": f"{case['kind']}:{len(dom)}:{big}", "summary": f"{counters}",
           "states": counters["history_states"], "transitions": counters["history_states"]}
    if uniq:
        out["violations"] = list(uniq.values())
    return out


def run_history(sc, ts, dom, seed, counters):
    """E2: BFS over {OPT, R, U+, U-} up to the depth bound, Z = 1 in every state (brute force, both semirings)."""
    from mc import bfs

    tier = os.environ.get("VERIF_TIER", "quick")
    depth = BOUNDS[tier]["history_depth"]
    rows = ref.assignments(dom)
    nvars = max(sc.scope) + 1
    viols = []

    def replay(hist):
        problems = []
        keyparts = []
        for semiring, fold, optimize in (("lse-sum", True, True), ("sum-product", False, False)):
            torch.manual_seed(77)
            cc = Compiled([sc], semiring, fold, optimize)
            cc.bind(valuation(ts, "generic", seed))
            tc = cc.cc(sc)
            x = cc.batch_tensor(rows, nvars)
            nres = 0
            for ev in hist:
                if ev == "OPT":
                    opt = torch.optim.SGD(tc.parameters(), lr=0.5)
                    opt.zero_grad()
                    y = tc(x[:2])
                    loss = -(y if semiring == "lse-sum" else torch.log(y)).sum()
                    loss.backward()
                    opt.step()
                elif ev == "R":
                    nres += 1
                    torch.manual_seed(200 + nres)
                    tc.reset_parameters()
                else:
                    with torch.no_grad():
                        for p in tc.parameters():
                            p += 30.0 if ev == "U+" else -30.0
            lin = cc.evaluate(sc, rows, nvars)
            z = lin.sum(axis=0)
            if not np.all(np.isfinite(lin)) or not close(z, np.ones_like(z), rtol=1e-8) or np.any(lin.real < -1e-12):
                problems.append((f"after {hist} ({semiring}, fold={fold}, optimize={optimize}): Z = {z.reshape(-1)[:3]}, min = {lin.real.min()}",
                                 {"kind": "partition-function", "via": "history", "where": "history", "semiring": semiring, "fold": fold, "optimize": optimize}))
            keyparts.append(np.round(lin.real, 8).tobytes())
        return list(hist), hash(b"".join(keyparts)), problems

    res = bfs.explore(lambda: [], lambda m: ["OPT", "R", "U+", "U-"], replay, depth, isolate=False)
    counters["history_states"] += res.states
    for hist, msg, sig in res.violations:
        viols.append({"sig": sig, "detail": msg})
    return viols
