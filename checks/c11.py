"""C11 - marginal queries on compiled circuits equal true marginals per sample (E1)."""
from __future__ import annotations

import itertools
import os
import traceback

import numpy as np
import torch

from cirkit.backend.torch.queries import IntegrateQuery
from cirkit.utils.scope import Scope

from mc import alphabet as A
from mc import cdl, pools, ref
from mc.harness import FLAGS, Compiled, close, maxdiff
from mc.pipecheck import collapse
from mc.util import exc_sig

PROPERTY = "C11"
LEVEL = "exploration"
RULE = (
    "cases = compiled circuits of the bounded grammar with univariate exp-family inputs (categorical probs / logits / "
    "log-softmax, binomial, Gaussian with/without log-partition, mixed; categorical probabilities with exact zeros, with every "
    "row of the domain used as placeholder) x (fold, optimize) x {sum-product, lse-sum} x "
    "batch sizes 1..3 (which include the fold counts that occur) x ALL mask matrices over the scope for B <= 3 (tensor format), "
    "all single scopes, all per-sample scope lists for B = 2; plus out-of-scope variables, wrong mask width, wrong dtype. "
    "Oracle: per sample brute-force sum / quadrature of the reference function over exactly the masked variables. "
    "Non-trivial: >= 2 distinct masks compared under a folded configuration"
)
ASSUMPTIONS = ["masks only set True in columns of variables of the scope", "Gaussian: <= 2 variables (quadrature bound), 1e-6 relative"]
BOUNDS = {"quick": {"max_vars": 3, "max_batch": 3}, "thorough": {"max_vars": 3, "max_batch": 3}}
CHUNK = 1

KINDS = ["cat-logits", "cat-probs", "cat-logsoftmax", "bin-probs", "bin-logits", "gau", "gau-lp", "emb"]


def cases(tier, seed):
    thorough = tier == "thorough"
    combos = [("had", "cpt"), ("kro", "cpt"), ("had", "cp")] + ([("had", "plain"), ("had", "sumsum")] if thorough else [])
    trees = A.trees_upto(3, mixed=True)
    if not thorough:
        trees = A.trees_upto(3, mixed=False) + A.mixed_trees([0, 1, 2])[:2] + A.dup_trees([0, 1]) + A.dup_trees([0, 1, 2])[:2]
    for tree in trees:
        nv = len(A.tree_vars(tree))
        for prod, style in combos:
            nary_opts = ["dense", "mixing"] if (not isinstance(tree, int) and tree[0] == "M") else ["dense"]
            for nary in nary_opts:
                for inp in KINDS + ["mixed"]:
                    if inp.startswith("gau") and nv > 2:
                        continue
                    if not thorough and inp in ("cat-logsoftmax", "bin-logits", "emb") and (prod, style) != ("had", "cpt"):
                        continue
                    for numbering in (["id", "gap"] if inp in ("cat-logits", "gau-lp", "mixed") else ["id"]):
                        for k in ([2] if not thorough or inp not in ("cat-logits", "gau-lp") else [1, 2]):
                            circ = dict(tree=tree, prod=prod, style=style, nary=nary, kin=k, ksum=k, kout=1 if inp != "cat-logits" else 2,
                                        inp="cat-logits" if inp == "mixed" else inp, numbering=numbering,
                                        outputs="two" if inp == "cat-probs" else "single")
                            if inp == "mixed":
                                if nv > 2:
                                    circ["mixed"] = ["cat-logits", "bin-probs", "cat-probs"]
                                else:
                                    circ["mixed"] = ["cat-logits", "gau-lp"]
                            yield {"circ": circ}
    # exact-zero probabilities: the placeholder stored at a marginalised position may be a state of likelihood zero
    # (log-space value -inf), which must not leak into the result; every window of 3 consecutive rows of the domain is used
    for tree in [0, ("P", [0, 1]), ("P", [0, 1, 2])]:
        for prod in (["had"] if isinstance(tree, int) else ["had", "kro"]):
            circ = dict(tree=tree, prod=prod, style="cpt", nary="dense", kin=2, ksum=2, kout=1, inp="cat-probs", numbering="id", outputs="single")
            for off in range(0, 27, 3):
                yield {"circ": circ, "vk": "mzeros", "pick_offset": off}


def masks_for(scope_vars, b):
    n = len(scope_vars)
    single = [list(m) for m in itertools.product([False, True], repeat=n)]
    return list(itertools.product(single, repeat=b))


def run_case(case):
    seed = int(os.environ.get("VERIF_SEED", "0"))
    spec = pools.spec_from(case["circ"])
    if spec is None:
        return {"status": "skip", "nontrivial": False}
    sc, roles = cdl.build_circuit(spec)
    val = cdl.valuation(roles, case.get("vk", "monotone"), seed)
    cval = ref.with_cache(val)
    dom = ref.var_domains(sc)
    vs = sorted(sc.scope)
    nvars = max(vs) + 1
    cont = any(dom[v][0] == "cont" for v in vs)
    tol = 1e-6 if cont else 1e-9
    all_rows = ref.assignments(dom, cont_grid=(-0.9, 0.3, 1.4))
    rng = np.random.default_rng([seed, 5])
    pick = [all_rows[i] for i in rng.permutation(len(all_rows))[:3]] if len(all_rows) >= 3 else (all_rows * 3)[:3]
    if "pick_offset" in case:
        if case["pick_offset"] >= len(all_rows):
            return {"status": "skip", "nontrivial": False}
        pick = (all_rows + all_rows)[case["pick_offset"]: case["pick_offset"] + 3]
    oracle_cache = {}

    def oracle(row, mask):
        z = [v for v, m in zip(vs, mask) if m]
        y = {v: row[v] for v in vs if v not in z}
        key = (tuple(sorted(y.items())), tuple(z))
        if key not in oracle_cache:
            if z:
                oracle_cache[key] = ref.integrate_ref(sc, cval, z, y, dom, gl_nodes=140 if len([v for v in z if dom[v][0] == "cont"]) < 2 else 64)
            else:
                oracle_cache[key] = np.stack(ref.eval_circuit(sc, cval, row)).astype(np.complex128)
        return oracle_cache[key]

    viols = []
    quick = os.environ.get("VERIF_TIER", "quick") == "quick"
    counters = {"queries": 0, "configs": 0, "refused": 0, "rejections_checked": 0}
    emb = case["circ"]["inp"] == "emb"
    folded_masks = 0
    for semiring in ("sum-product", "lse-sum"):
        for fold, optimize in FLAGS:
            cfg = {"semiring": semiring, "fold": fold, "optimize": optimize}
            try:
                cc = Compiled([sc], semiring, fold, optimize)
                cc.bind(val)
                tc = cc.cc(sc)
                q = IntegrateQuery(tc)
            except Exception as e:
                viols.append({"sig": {"kind": "exception-setup", **exc_sig(e), **cfg}, "detail": traceback.format_exc()[-1200:]})
                continue
            counters["configs"] += 1

            def run_query(rows, iv, expected, fmt):
                x = cc.batch_tensor(rows, nvars)
                try:
                    out = q(x, integrate_vars=iv)
                except Exception as e:
                    if emb and isinstance(e, TypeError):
                        counters["refused"] += 1
                        return True
                    viols.append({"sig": {"kind": "exception-query", "format": fmt, "batch": len(rows), **exc_sig(e), **cfg},
                                  "detail": f"rows={rows} integrate_vars={iv}\n" + traceback.format_exc()[-1000:]})
                    return False
                got = cc.to_linear(out)
                counters["queries"] += 1
                if got.shape != expected.shape:
                    viols.append({"sig": {"kind": "shape", "format": fmt, "batch": len(rows), **cfg}, "detail": f"{got.shape} vs {expected.shape}; iv={iv}"})
                    return False
                if not close(got, expected, rtol=tol):
                    viols.append({"sig": {"kind": "mismatch", "format": fmt, "batch": len(rows), **cfg},
                                  "detail": f"rows={rows} integrate_vars={iv} max|diff|={maxdiff(got, expected):.3e} got={got.reshape(-1)[:4]} exp={expected.reshape(-1)[:4]}"})
                    return False
                return True

            ok = True
            # tensor masks: all mask matrices for B = 1, 2, 3
            for b in (1, 2, 3):
                rows = pick[:b]
                for mm in masks_for(vs, b):
                    if not any(any(m) for m in mm) and b > 1:
                        continue
                    if quick and b == 3 and len(vs) >= 3 and list(mm[2]) != [not x for x in mm[0]]:
                        continue
                    mask = torch.zeros((b, nvars), dtype=torch.bool)
                    for i, m in enumerate(mm):
                        for v, bit in zip(vs, m):
                            mask[i, v] = bit
                    exp = np.stack([oracle(r, m) for r, m in zip(rows, mm)])
                    ok = run_query(rows, mask, exp, "tensor") and ok
                    if fold:
                        folded_masks += 1
                    if not ok:
                        break
                if not ok:
                    break
            if ok:
                # one Scope for the whole batch (B = 1..3), and a 1-element list of scopes
                for m in masks_for(vs, 1):
                    z = [v for v, bit in zip(vs, m[0]) if bit]
                    for b in (1, 3):
                        rows = pick[:b]
                        exp = np.stack([oracle(r, m[0]) for r in rows])
                        ok = run_query(rows, Scope(z), exp, "scope") and ok
                    ok = run_query(pick[:2], [Scope(z)], np.stack([oracle(r, m[0]) for r in pick[:2]]), "scope-list-1") and ok
                    if not ok:
                        break
            if ok:
                for mm in masks_for(vs, 2):
                    zs = [Scope([v for v, bit in zip(vs, m) if bit]) for m in mm]
                    exp = np.stack([oracle(r, m) for r, m in zip(pick[:2], mm)])
                    ok = run_query(pick[:2], zs, exp, "scope-list") and ok
                    if not ok:
                        break
            # rejections
            x1 = cc.batch_tensor(pick[:1], nvars)
            bad_var = max(vs) + 1
            gap_vars = [v for v in range(nvars) if v not in vs]
            for iv, name in ([(Scope([bad_var]), "out-of-scope")] + ([(Scope([gap_vars[0]]), "gap-variable")] if gap_vars else [])
                             + [(torch.zeros((1, nvars + 1), dtype=torch.bool), "wrong-width"), (torch.zeros((1, nvars), dtype=torch.int64), "wrong-dtype"),
                                ([Scope([vs[0]])] * 3, "wrong-length")]):
                counters["rejections_checked"] += 1
                try:
                    q(x1, integrate_vars=iv)
                    viols.append({"sig": {"kind": "accepts-invalid", "what": name, **cfg}, "detail": f"integrate_vars={iv} accepted"})
                except (ValueError, IndexError) as e:
                    if not isinstance(e, ValueError):
                        viols.append({"sig": {"kind": "rejects-with-internal-error", "what": name, **exc_sig(e), **cfg}, "detail": str(e)})
                except Exception as e:
                    viols.append({"sig": {"kind": "rejects-with-internal-error", "what": name, **exc_sig(e), **cfg}, "detail": traceback.format_exc()[-800:]})
    c = case["circ"]
    dims = {"inp": "mixed" if c.get("mixed") else c["inp"], "prod": c["prod"], "style": c["style"], "numbering": c["numbering"], "nvars": len(vs)}
    out = {"status": "violation" if viols else ("refused" if emb and counters["queries"] == 0 else "ok"), "nontrivial": folded_masks >= 2 and counters["queries"] > 0,
           "counters": counters, "evaluations": max(1, counters["queries"]), "dims": dims, "outcome": f"{len(vs)}:{counters['queries']}",
           "summary": f"{counters}"}
    if emb and counters["queries"] == 0 and not viols:
        out["refusal"] = "TypeError: embedding layers cannot be integrated by the query"
    if viols:
        out["violations"] = [dict(v, case=case) for v in collapse(viols)]
    return out
