"""C02 - folding and optimization never change the computed function (E1)."""
from __future__ import annotations

import os

from mc import alphabet as A
from mc import pools
from mc.harness import Compiled
from mc.pipecheck import check_pipeline, collapse

PROPERTY = "C02"
LEVEL = "exploration"
RULE = (
    "cases = circuits of the bounded grammar (incl. multi-output, outputs feeding other layers, shared leaves) and operator "
    "pipelines over them (square, product of two circuits, integrate, evidence, differentiate, conjugate, concatenate, "
    "iterated products); each compiled with four fresh compilers (fold x optimize) per semiring, the same symbolic values "
    "bound through the compiler registry, compared on all inputs pairwise (1e-10) and with the definitional oracle; the "
    "registry must map every symbolic tensor to exactly one slice of one compiled tensor and cover all compiled slices. "
    "Non-trivial: some rewrite fired or a fold group of size >= 2 exists in the folded compilation"
)
ASSUMPTIONS = ["generic / monotone valuations (VERIF_SEED)", "rewrites are detected from the compiled module types"]
BOUNDS = {"quick": {"max_vars": 3}, "thorough": {"max_vars": 3}}
CHUNK = 3


def cases(tier, seed):
    thorough = tier == "thorough"
    outs = ["single", "two", "feeds", "feeds-rev", "inner", "sub"]
    for tree, prod, style, nary in pools.structure_pool("thorough"):
        nv = len(A.tree_vars(tree))
        for kin, ksum in ([(2, 2), (1, 2)] if not thorough else [(2, 2), (1, 2), (2, 1), (3, 3), (1, 1)]):
            if style == "plain" and kin != ksum:
                continue
            for outputs in outs:
                if not thorough and outputs in ("feeds-rev",) and nv > 2:
                    continue
                for inp, vk in [("emb", "generic"), ("cat-softmax", "monotone"), ("gau", "monotone")]:
                    if not thorough and inp == "gau" and (outputs != "single" or (kin, ksum) != (2, 2)):
                        continue
                    circ = dict(tree=tree, prod=prod, style=style, nary=nary, kin=kin, ksum=ksum, kout=ksum if outputs in ("inner", "sub") else 1,
                                inp=inp, numbering="h8" if kin == 2 else "id", outputs=outputs)
                    yield {"mode": "base", "circ": circ, "vk": vk}
                    if outputs in ("single", "two") and (kin, ksum) in ((2, 2), (1, 2)) and (nv <= 2 or thorough or inp == "emb"):
                        yield {"mode": "square", "circ": circ, "vk": vk}
                        if inp != "gau" or nv <= 2:
                            yield {"mode": "square-int", "circ": circ, "vk": vk}
    # mixed input kinds per variable (fold groups of constant / input layers of different families), complex parameters
    for tree in A.REPRESENTATIVE_TREES + [("P", [0, 1])]:
        for prod in ["had", "kro"]:
            for mixed in (["emb", "cat-logits", "cat-probs"], ["cat-logits", "gau-lp", "emb"], ["gau", "emb", "gau-lp"], ["bin-probs", "cat-probs", "emb"]):
                circ = dict(tree=tree, prod=prod, style="cpt", nary="dense", kin=2, ksum=2, kout=1, inp="emb", numbering="id", mixed=mixed)
                for mode in (["base", "int-partial", "square-int", "evi-fold"] if "bin-probs" not in mixed else ["base", "evi-fold"]):
                    yield {"mode": mode, "circ": circ, "vk": "monotone"}
            for style in ["cpt", "sumsum", "cp"]:
                for ctree in [tree, ("M", [[0, 1], [0, 1]]), ("M", [[0, 1], [1, 0]])]:
                    if ctree != tree and tree != ("P", [0, 1]):
                        continue
                    circ = dict(tree=ctree, prod=prod, style=style, nary="dense", kin=2 if prod == "had" else 1, ksum=2 if prod == "had" else 1, kout=1, inp="emb", numbering="id", cplx=True)
                    yield {"mode": "base", "circ": circ, "vk": "complex"}
                    yield {"mode": "square", "circ": circ, "vk": "complex"}
                    yield {"mode": "conj", "circ": circ, "vk": "complex"}
                    yield {"mode": "square-conj", "circ": circ, "vk": "complex"}
    for tree in A.REPRESENTATIVE_TREES + [("P", [0, 1]), ("M", [[0, 1], [1, 0]]), ("M", [[0, 1, 2], [2, 0, 1]])]:
        for prod in ["had", "kro"]:
            for inp, vk in [("emb", "generic"), ("cat-logits", "monotone"), ("cat-softmax", "monotone"), ("gau-lp", "monotone"), ("poly2", "generic")]:
                for k in ([1, 2] if prod == "kro" else [2, 3]):
                    circ = dict(tree=tree, prod=prod, style="cpt", nary="dense", kin=k, ksum=k, kout=1, inp=inp, numbering="gap")
                    for mode in ["pair", "cube", "fourth", "evidence", "conj", "concat", "int-partial", "diff", "evi-fold"]:
                        if mode == "diff" and inp != "poly2":
                            continue
                        if mode in ("int-partial", "evidence", "evi-fold") and inp == "poly2" and mode == "int-partial":
                            continue
                        if mode == "fourth" and k > 1 and prod == "kro":
                            continue
                        yield {"mode": mode, "circ": circ, "vk": vk}


def pipeline_of(case):
    spec = pools.spec_from(case["circ"])
    if spec is None:
        return None, None
    m = case["mode"]
    c = case["circ"]
    vs = pools.var_ids(pools.tt(c["tree"]), c["numbering"])
    cont = c["inp"].startswith(("gau", "poly")) or any(m.startswith("gau") for m in (c.get("mixed") or []))
    if m == "base":
        return {"circuits": [spec]}, [0]
    if m == "square":
        return {"circuits": [spec], "ops": [{"op": "multiply", "args": [0, 0]}]}, [0, 1]
    if m == "square-int":
        return {"circuits": [spec], "ops": [{"op": "multiply", "args": [0, 0]}, {"op": "integrate", "args": [1], "scope": vs[:2] if cont else None}]}, [2]
    if m == "pair":
        spec2 = pools.spec_from(dict(c, kin=1 if c["kin"] == 2 else 2, ksum=1 if c["kin"] == 2 else 2))
        ops = [{"op": "multiply", "args": [0, 1]}, {"op": "multiply", "args": [1, 0]}]
        targets = [2, 3]
        if not c["inp"].startswith("poly"):
            ops.append({"op": "integrate", "args": [2], "scope": vs[:2] if cont else None})
            ops.append({"op": "integrate", "args": [3], "scope": vs[-1:]})
            targets += [4, 5]
        return {"circuits": [spec, spec2], "ops": ops}, targets
    if m == "cube":
        return {"circuits": [spec], "ops": [{"op": "multiply", "args": [0, 0]}, {"op": "multiply", "args": [1, 0]}]}, [2]
    if m == "fourth":
        return {"circuits": [spec], "ops": [{"op": "multiply", "args": [0, 0]}, {"op": "multiply", "args": [1, 1]}]}, [2]
    if m == "evidence":
        obs = {str(vs[0]): 0.4 if cont else 1}
        return {"circuits": [spec], "ops": [{"op": "evidence", "args": [0], "obs": obs}, {"op": "multiply", "args": [1, 1]}]}, [1, 2]
    if m == "evi-fold":
        # all variables observed with different values: folded evidence layers carry different observations
        obs = {str(v): (0.3 * (i + 1) if cont else (i % 2)) for i, v in enumerate(vs)}
        obs2 = {str(v): (-0.5 * (i + 1) if cont else ((i + 1) % 2)) for i, v in enumerate(vs[1:])}
        ops = [{"op": "evidence", "args": [0], "obs": obs}]
        targets = [1]
        if obs2:
            ops.append({"op": "evidence", "args": [0], "obs": obs2})
            ops.append({"op": "concatenate", "args": [1, 1]})
            targets = [1, 2, 3]
        return {"circuits": [spec], "ops": ops}, targets
    if m == "conj":
        return {"circuits": [spec], "ops": [{"op": "conjugate", "args": [0]}, {"op": "multiply", "args": [0, 1]}]}, [1, 2]
    if m == "square-conj":
        return {"circuits": [spec], "ops": [{"op": "multiply", "args": [0, 0]}, {"op": "conjugate", "args": [1]}]}, [2]
    if m == "concat":
        return {"circuits": [spec], "ops": [{"op": "multiply", "args": [0, 0]}, {"op": "integrate", "args": [0], "scope": vs[:1]},
                                            {"op": "concatenate", "args": [0, 0]}]}, [1, 2, 3]
    if m == "int-partial":
        return {"circuits": [spec], "ops": [{"op": "integrate", "args": [0], "scope": vs[:1]}, {"op": "integrate", "args": [0], "scope": vs[-1:]},
                                            {"op": "integrate", "args": [0], "scope": vs[:2] if cont else None}]}, [1, 2, 3]
    if m == "diff":
        return {"circuits": [spec], "ops": [{"op": "differentiate", "args": [0], "order": 1}, {"op": "differentiate", "args": [0], "order": 2}]}, [1, 2]
    raise ValueError(m)


REWRITE_TYPES = ["TorchTuckerLayer", "TorchCPTLayer", "TorchTensorDotLayer", "TorchMatMulParameter", "TorchLogSoftmaxParameter",
                 "TorchEinsumParameter", "TorchFlattenParameter"]


def structure_stats(pspec, targets, pipe):
    stats = {}
    try:
        cc = Compiled(pipe.circuits, "sum-product", True, True, compile_only=targets)
    except Exception:
        return stats
    for t in targets:
        tc = cc.cc(pipe.circuits[t])
        for m in tc.modules():
            n = type(m).__name__
            if n in REWRITE_TYPES:
                stats[n] = 1
            nf = getattr(m, "num_folds", 1)
            if nf > 1:
                if n.startswith("Torch") and n.endswith("Layer"):
                    stats["fold>=2:layer"] = 1
                if n == "TorchTensorParameter":
                    stats["fold>=2:tensor"] = 1
                if n == "TorchPointerParameter":
                    stats["fold>=2:pointer"] = 1
        for e in tc.address_book:
            for fi in e.in_fold_idx:
                if isinstance(fi, tuple):
                    stats["unsqueeze-shortcut"] = 1
            if e.in_module_ids and len(e.in_module_ids[0]) > 1:
                stats["stacked-entry>1"] = 1
    return stats


def run_case(case):
    seed = int(os.environ.get("VERIF_SEED", "0"))
    pspec, targets = pipeline_of(case)
    if pspec is None:
        return {"status": "skip", "nontrivial": False}
    r = check_pipeline(pspec, targets, vk=case["vk"], seed=seed, max_rows=12, registry=True, cross_flags=True, any_symbolic_error_is_refusal=True)
    c = case["circ"]
    dims = {"mode": case["mode"], "inp": c["inp"], "prod": c["prod"], "style": c["style"], "outputs": c.get("outputs", "single")}
    if r["status"] == "refused":
        return {"status": "refused", "refusal": r["refusal"], "nontrivial": False, "dims": dims}
    stats = structure_stats(pspec, targets, r["pipe"]) if "pipe" in r else {}
    counters = dict(r["counters"])
    for k in stats:
        counters["rw:" + k] = 1
    out = {"status": r["status"], "nontrivial": bool(stats) and r["counters"].get("compared", 0) > 0, "counters": counters,
           "evaluations": max(1, r["counters"].get("configs", 0)), "dims": dims, "outcome": f"{case['mode']}:{sorted(stats)}",
           "summary": f"{r['counters']} {sorted(stats)}"}
    if r["violations"]:
        out["violations"] = [dict(v, sig=dict(v["sig"], mode=case["mode"]), case=case) for v in collapse(r["violations"])]
    return out


def finalize(agg):
    issues = []
    for t in REWRITE_TYPES + ["fold>=2:layer", "fold>=2:tensor", "fold>=2:pointer", "unsqueeze-shortcut", "stacked-entry>1"]:
        if not agg["counters"].get("rw:" + t):
            issues.append(f"the alphabet never produced {t}")
    return issues
