"""C05 - differentiate returns the partial derivatives in variable order (E1)."""
from __future__ import annotations

import os

from mc import alphabet as A
from mc import pools
from mc.pipecheck import check_pipeline, collapse

PROPERTY = "C05"
LEVEL = "exploration"
RULE = (
    "cases = polynomial-input circuits of the bounded grammar (1..4 variables, every numbering incl. ids >= 8 and gaps, "
    "degree 0..3 mixed per variable, Hadamard/Kronecker of arity 2/3, n-ary sums, two outputs) x order k in 1..3 (k > degree "
    "included); compiled under {sum-product, complex-lse-sum} x (fold, optimize); oracle = exact interpolation of the "
    "operand's reference function along each variable followed by analytic differentiation, outputs expected in "
    "increasing variable-id order followed by the operand. Non-trivial: >= 2 variables, so that the order is observable"
)
ASSUMPTIONS = ["generic valuations (VERIF_SEED); inputs on a 5-point grid per variable (subsampled to <= 20 rows)"]
BOUNDS = {"quick": {"max_vars": 3, "orders": [1, 2, 3]}, "thorough": {"max_vars": 4, "orders": [1, 2, 3]}}
CHUNK = 2


def cases(tier, seed):
    thorough = tier == "thorough"
    nmax = BOUNDS[tier]["max_vars"]
    trees = A.trees_upto(3, mixed=True)
    if nmax >= 4:
        t4 = A.single_trees([0, 1, 2, 3])
        trees = trees + t4[:: max(1, len(t4) // 12)]
    for tree in trees:
        nv = len(A.tree_vars(tree))
        for prod, style in [("had", "cpt"), ("kro", "cpt"), ("had", "plain"), ("had", "cp")]:
            nary_opts = ["dense", "mixing"] if (not isinstance(tree, int) and tree[0] == "M") else ["dense"]
            for nary in nary_opts:
                for numbering in A.NUMBERINGS:
                    for deg in ["poly1", "poly2", "poly3", "mixed"]:
                        for order in BOUNDS[tier]["orders"]:
                            if not thorough:
                                # quick: all numberings only with order 1/deg poly2+mixed; all orders only with id/h8
                                if numbering not in ("id", "h8") and not (order == 1 and deg in ("poly2", "mixed")):
                                    continue
                                if order == 3 and deg not in ("poly2", "mixed"):
                                    continue
                            for outputs in (["single", "two"] if (deg == "poly2" and order == 1 and style == "cpt") else ["single"]):
                                circ = dict(tree=tree, prod=prod, style=style, nary=nary, kin=2 if prod == "had" else 1,
                                            ksum=2 if prod == "had" else 1, kout=1, numbering=numbering, outputs=outputs,
                                            inp="poly2" if deg == "mixed" else deg)
                                if deg == "mixed":
                                    circ["mixed"] = ["poly2", "poly0", "poly3", "poly1"]
                                yield {"circ": circ, "order": order}
    # Kronecker with 2 units on small trees
    for tree in [("P", [0, 1]), ("P", [0, 1, 2]), ("P", [("P", [0, 2]), 1])]:
        for numbering in A.NUMBERINGS:
            for order in (1, 2):
                yield {"circ": dict(tree=tree, prod="kro", style="cpt", nary="dense", kin=2, ksum=2, kout=2, numbering=numbering, inp="poly2"), "order": order}


def run_case(case):
    seed = int(os.environ.get("VERIF_SEED", "0"))
    spec = pools.spec_from(case["circ"])
    if spec is None:
        return {"status": "skip", "nontrivial": False}
    pspec = {"circuits": [spec], "ops": [{"op": "differentiate", "args": [0], "order": case["order"]}]}
    r = check_pipeline(pspec, [1], vk="generic", seed=seed, max_rows=20, semirings=["sum-product", "complex-lse-sum"], rtol=1e-8)
    nv = len(A.tree_vars(pools.tt(case["circ"]["tree"])))
    dims = {"numbering": case["circ"]["numbering"], "order": case["order"], "prod": case["circ"]["prod"], "deg": "mixed" if case["circ"].get("mixed") else case["circ"]["inp"], "nvars": nv}
    if r["status"] == "refused":
        return {"status": "violation", "nontrivial": False, "dims": dims,
                "violations": [{"sig": {"kind": "unexpected-refusal", "refusal": r["refusal"]}, "detail": r["refusal"], "case": case}]}
    out = {"status": r["status"], "nontrivial": nv >= 2 and r["counters"].get("compared", 0) > 0, "counters": r["counters"],
           "evaluations": max(1, r["counters"].get("configs", 0)), "dims": dims, "outcome": f"{nv}:{case['order']}:{r.get('rows')}",
           "summary": f"{r['counters']}"}
    if r["violations"]:
        out["violations"] = [dict(v, sig=dict(v["sig"], numbering=case["circ"]["numbering"] if case["circ"]["numbering"] in ("id", "gap") else "ids>=8"), case=case) for v in collapse(r["violations"])]
    return out
