"""C20 - model templates compute the formulas they document (E1)."""
from __future__ import annotations

import itertools
import os
import tempfile
import traceback

import numpy as np
import torch

from cirkit.symbolic import functional as SF
from cirkit.symbolic import layers as L
from cirkit.symbolic import parameters as P
from cirkit.templates import pgms, tensor_factorizations
from cirkit.templates.logic import (
    SDD, BottomNode, ConjunctionNode, DisjunctionNode, LiteralNode, LogicalCircuit, NegatedLiteralNode, TopNode,
)
from cirkit.templates.utils import Parameterization

from mc import ref
from mc.harness import FLAGS, Compiled, circuit_tensor_params, close, maxdiff
from mc.pipecheck import collapse
from mc.util import exc_sig

PROPERTY = "C20"
LEVEL = "exploration"
RULE = (
    "cases = cp / tucker on every shape with 1..3 dimensions of sizes {1,2,3} x rank {1,2,3} x input layer {embedding, categorical, "
    "binomial} x weighted or not; tensor_train on 2..4 dimensions x sizes {2,3} x rank {1,2,3} x real / complex; hmm on EVERY ordering "
    "of 1..4 variables x latent states {1,2,3} x input layer x per-variable kwargs with pairwise different arguments; fully_factorized "
    "likewise; logic circuits: all formulas of depth <= 3 over <= 3 variables from {literal, negated literal, top, bottom, decision "
    "node, decomposable and (arity 2, 3)}, built directly and through a generated SDD file, plus deterministic disjunctions nested "
    "directly under a disjunction / with literal children and multi-element SDD decisions whose primes are decisions (2 or 3 "
    "elements, subs in {top, bottom, literal}) and 4-variable DAGs in which a conjunction is shared by two disjunctions of "
    "different scope (nodes listed children-first and parents-first); each under (fold, optimize) x admissible "
    "semirings; oracle: factor tensors read back from the symbolic parameters and contracted with np.einsum at EVERY index tuple; "
    "explicit summation over latent chains; per-variable layer type / arguments by variable id; truth table and model count. "
    "Non-trivial: >= 2 index tuples / assignments compared"
)
ASSUMPTIONS = ["factor layout: A^(j)[x, r] = weight_j[r, x]; TT inner factor V^(j)[x, r_{j-1}, r_j] = weight of the r_j-th embedding layer of variable j at [r_{j-1}, x]",
               "one-dimensional shapes may refuse with ValueError (product arity < 2)"]
BOUNDS = {"quick": {"max_dims": 3, "hmm_vars": 3}, "thorough": {"max_dims": 3, "hmm_vars": 4}}
CHUNK = 4


# ------------------------------------------------------------------ formulas
# AST: ("lit", v) | ("neg", v) | ("top",) | ("bot",) | ("dec", v, a, b) | ("and", [f...]) | ("or", [f...])
# ("or", ...) is only generated with mutually exclusive children (a deterministic disjunction), possibly nested
# directly under another disjunction or with literal children.


def fvars(f):
    t = f[0]
    if t in ("lit", "neg"):
        return frozenset([f[1]])
    if t in ("top", "bot"):
        return frozenset()
    if t == "dec":
        return frozenset([f[1]]) | fvars(f[2]) | fvars(f[3])
    return frozenset().union(*[fvars(g) for g in f[1]])


def nested_ors(vars_):
    """Deterministic disjunctions with a disjunction / a literal directly under a disjunction."""
    vars_ = tuple(vars_)
    out = []
    for v in vars_:
        for w in vars_:
            if w == v:
                continue
            rest = [u for u in vars_ if u not in (v, w)]
            opts = [None] + ([("lit", rest[0]), ("neg", rest[0])] if rest else [])

            def conj(lits, extra):
                return ("and", list(lits) + ([extra] if extra is not None else []))

            for a1 in opts:
                for a2 in opts:
                    for b in opts:
                        inner = ("or", [conj([("lit", v), ("lit", w)], a1), conj([("lit", v), ("neg", w)], a2)])
                        out.append(("or", [inner, conj([("neg", v)], b) if b is not None else ("neg", v)]))
            for b in opts:
                lit_or = ("or", [("lit", v), conj([("neg", v), ("lit", w)], None)])
                out.append(lit_or)
                out.append(("or", [lit_or, conj([("neg", v), ("neg", w)], b)]))
    return out


def feval(f, x):
    t = f[0]
    if t == "lit":
        return bool(x[f[1]])
    if t == "neg":
        return not x[f[1]]
    if t == "top":
        return True
    if t == "bot":
        return False
    if t == "dec":
        return feval(f[2], x) if x[f[1]] else feval(f[3], x)
    if t == "or":
        return any(feval(g, x) for g in f[1])
    return all(feval(g, x) for g in f[1])


def formulas(vars_, depth):
    """All formulas over (a subset of) vars_ with nesting depth <= depth."""
    vars_ = tuple(vars_)
    out = [("top",), ("bot",)]
    for v in vars_:
        out += [("lit", v), ("neg", v)]
    if depth <= 0:
        return out
    for v in vars_:
        rest = tuple(u for u in vars_ if u != v)
        subs = formulas(rest, depth - 1)
        for a in subs:
            for b in subs:
                out.append(("dec", v, a, b))
    # decomposable conjunctions over disjoint variable blocks
    for k in (2, 3):
        if len(vars_) < k:
            continue
        for blocks in _ordered_partitions(vars_, k):
            pools = [[g for g in formulas(b, depth - 1) if fvars(g)] for b in blocks]
            for combo in itertools.product(*pools):
                out.append(("and", list(combo)))
    return out


def sdd_partitions(vars_):
    """Multi-element SDD decisions: primes are themselves decisions over {v, w} forming a partition, subs range over u."""
    vars_ = tuple(vars_)
    out = []
    for v in vars_:
        for w in vars_:
            if w == v:
                continue
            rest = [u for u in vars_ if u not in (v, w)]
            subs = [("top",), ("bot",)] + ([("lit", rest[0]), ("neg", rest[0])] if rest else [])
            prime_sets = [
                [("dec", v, ("lit", w), ("bot",)), ("dec", v, ("neg", w), ("bot",)), ("neg", v)],
                [("dec", v, ("lit", w), ("neg", w)), ("dec", v, ("neg", w), ("lit", w))],
            ]
            for primes in prime_sets:
                for combo in itertools.product(subs, repeat=len(primes)):
                    out.append(("or", [("and", [p, s_]) for p, s_ in zip(primes, combo)]))
    return out


def _ordered_partitions(vars_, k):
    vars_ = list(vars_)
    res = []
    for assign in itertools.product(range(k), repeat=len(vars_)):
        blocks = [[] for _ in range(k)]
        for v, a in zip(vars_, assign):
            blocks[a].append(v)
        if all(blocks) and all(min(blocks[i]) < min(blocks[i + 1]) for i in range(k - 1)):
            res.append([tuple(b) for b in blocks])
    return res


def formula_to_graph(f, share=False, order="post"):
    """Build a LogicalCircuit directly from the AST (shared literal nodes). share=True: syntactically equal sub-formulas
    become ONE node with several parents (a DAG); order='rev': the inner nodes are listed parents-first."""
    nodes, in_nodes, lits, memo = [], {}, {}, {}

    def rec(g):
        if share and g[0] in ("and", "or", "dec"):
            k = repr(g)
            if k not in memo:
                memo[k] = rec_(g)
            return memo[k]
        return rec_(g)

    def rec_(g):
        t = g[0]
        if t in ("lit", "neg"):
            key = (t, g[1])
            if key not in lits:
                lits[key] = LiteralNode(g[1]) if t == "lit" else NegatedLiteralNode(g[1])
                nodes.append(lits[key])
            return lits[key]
        if t == "top":
            n = TopNode(); nodes.append(n); return n
        if t == "bot":
            n = BottomNode(); nodes.append(n); return n
        if t == "dec":
            v = g[1]
            c1, c2 = ConjunctionNode(), ConjunctionNode()
            in_nodes[c1] = [rec(("lit", v)), rec(g[2])]
            in_nodes[c2] = [rec(("neg", v)), rec(g[3])]
            d = DisjunctionNode()
            in_nodes[d] = [c1, c2]
            nodes.extend([c1, c2, d])
            return d
        c = DisjunctionNode() if t == "or" else ConjunctionNode()
        in_nodes[c] = [rec(h) for h in g[1]]
        nodes.append(c)
        return c

    root = rec(f)
    if order == "rev":
        leaves = [n for n in nodes if n not in in_nodes]
        nodes = leaves + [n for n in reversed(nodes) if n in in_nodes]
    return LogicalCircuit(nodes, in_nodes, [root])


def shared_dags(vars_):
    """Deterministic decomposable formulas in which one conjunction C is an input of two disjunctions of DIFFERENT scope."""
    out = []
    for a, b, u, s_ in itertools.permutations(vars_, 4):
        if a > b:
            continue
        C = ("and", [("lit", a), ("lit", b)])
        for sb1 in ("lit", "neg"):
            for su in ("lit", "neg"):
                for sb2 in ("lit", "neg"):
                    big = ("or", [C, ("and", [("neg", a), (sb1, b), (su, u)])])
                    small = ("or", [C, ("and", [("neg", a), (sb2, b)])])
                    out.append(("dec", s_, big, small))
                    out.append(("dec", s_, small, big))
    return out


def formula_to_sdd_text(f):
    """Serialise the formula as an SDD file (literals, constants and decision nodes only)."""
    lines, ids = [], {}
    counter = [1]  # id 0 is reserved for the root

    def new_id():
        i = counter[0]
        counter[0] += 1
        return i

    def rec(g, root=False):
        t = g[0]
        i = 0 if root else new_id()
        if t == "lit":
            lines.append(f"L {i} 0 {g[1] + 1}")
        elif t == "neg":
            lines.append(f"L {i} 0 {-(g[1] + 1)}")
        elif t == "top":
            lines.append(f"T {i}")
        elif t == "bot":
            lines.append(f"F {i}")
        elif t == "dec":
            p1 = rec(("lit", g[1])); s1 = rec(g[2]); p2 = rec(("neg", g[1])); s2 = rec(g[3])
            lines.append(f"D {i} 0 2 {p1} {s1} {p2} {s2}")
        elif t == "or" and all(h[0] == "and" and len(h[1]) == 2 for h in g[1]):
            ids_ = []
            for h in g[1]:
                ids_ += [rec(h[1][0]), rec(h[1][1])]
            lines.append(f"D {i} 0 {len(g[1])} " + " ".join(map(str, ids_)))
        else:
            raise ValueError("conjunctions are not SDD elements")
        return i

    rec(f, root=True)
    return "c generated\nsdd %d\n" % counter[0] + "\n".join(lines) + "\n"


def sdd_able(f):
    t = f[0]
    if t == "or":
        return all(h[0] == "and" and len(h[1]) == 2 and sdd_able(h[1][0]) and sdd_able(h[1][1]) for h in f[1])
    if t == "and":
        return False
    if t == "dec":
        return sdd_able(f[2]) and sdd_able(f[3])
    return True


# ------------------------------------------------------------------ cases


def cases(tier, seed):
    thorough = tier == "thorough"
    sizes = [1, 2, 3]
    for nd in (1, 2, 3):
        for shape in itertools.product(sizes, repeat=nd):
            if not thorough and nd == 3 and sorted(shape) not in ([1, 2, 3], [2, 2, 3], [2, 2, 2], [1, 1, 2], [3, 3, 2]):
                continue
            for rank in (1, 2, 3):
                for inp in ("embedding", "categorical", "binomial"):
                    if inp != "embedding" and min(shape) < 2 and inp == "categorical":
                        continue
                    for weighted in (False, True):
                        yield {"kind": "cp", "shape": list(shape), "rank": rank, "inp": inp, "weighted": weighted}
                    if not (rank == 3 and nd == 3 and not thorough):
                        yield {"kind": "tucker", "shape": list(shape), "rank": rank, "inp": inp}
    for nd in (2, 3, 4):
        for shape in itertools.product([2, 3], repeat=nd):
            if not thorough and nd == 4 and shape not in ((2, 3, 2, 3), (3, 2, 2, 2), (2, 2, 3, 3)):
                continue
            for rank in (1, 2, 3):
                for cplx in (False, True):
                    yield {"kind": "tt", "shape": list(shape), "rank": rank, "cplx": cplx}
    for n in range(1, BOUNDS[tier]["hmm_vars"] + 1):
        for ordering in itertools.permutations(range(n)):
            for ks in (1, 2, 3):
                for inp in ("categorical", "binomial", "gaussian"):
                    if not thorough and n >= 3 and ks == 3 and inp != "categorical":
                        continue
                    yield {"kind": "hmm", "ordering": list(ordering), "ks": ks, "inp": inp, "kwargs": "per-variable"}
            yield {"kind": "hmm", "ordering": list(ordering), "ks": 2, "inp": "categorical", "kwargs": "shared"}
        for inp in ("categorical", "binomial", "gaussian"):
            yield {"kind": "ff", "n": n, "inp": inp, "kwargs": "per-variable"}
    seen = set()
    for nv, depth in ((1, 1), (2, 2), (3, 2)) + (((3, 3),) if thorough else ()):
        for f in formulas(tuple(range(nv)), depth):
            k = repr(f)
            if k in seen:
                continue
            seen.add(k)
            yield {"kind": "logic", "formula": f, "via": "graph"}
            if sdd_able(f) and f[0] == "dec":
                yield {"kind": "logic", "formula": f, "via": "sdd"}
    for nv in (2, 3):
        for f in nested_ors(tuple(range(nv))):
            k = repr(f)
            if k not in seen:
                seen.add(k)
                yield {"kind": "logic", "formula": f, "via": "graph"}
        if nv == 3:
            for f in shared_dags((0, 1, 2, 3)):
                for order in ("post", "rev"):
                    yield {"kind": "logic", "formula": f, "via": "graph", "share": True, "order": order}
        for f in sdd_partitions(tuple(range(nv))):
            k = repr(f)
            if k not in seen:
                seen.add(k)
                yield {"kind": "logic", "formula": f, "via": "graph"}
                yield {"kind": "logic", "formula": f, "via": "sdd"}


def _tup(f):
    """JSON turns tuples into lists: normalise a formula back."""
    t = f[0]
    if t in ("lit", "neg"):
        return (t, f[1])
    if t in ("top", "bot"):
        return (t,)
    if t == "dec":
        return ("dec", f[1], _tup(f[2]), _tup(f[3]))
    return (t, [_tup(g) for g in f[1]])


# ------------------------------------------------------------------ oracles


def bind_values(sc, seed, cplx=False, positive=False):
    val = {}
    for i, t in enumerate(circuit_tensor_params(sc)):
        if isinstance(t, P.ConstantParameter) or not t.learnable:
            continue
        if getattr(t.initializer, "value", None) is not None:
            continue
        rng = np.random.default_rng([seed, i, 91])
        a = rng.uniform(-1.2, 1.2, size=t.shape)
        if cplx:
            a = a + 1j * rng.uniform(-1, 1, size=t.shape)
        val[t] = a
    return val


def compare(sc, val, expected_fn, rows, semirings, viols, counters, nvars=None):
    nvars = nvars or (max(sc.scope) + 1)
    exp = np.array([expected_fn(r) for r in rows], dtype=np.complex128).reshape(len(rows), 1, 1)
    for semiring in semirings:
        for fold, optimize in FLAGS:
            cfg = {"semiring": semiring, "fold": fold, "optimize": optimize}
            try:
                cc = Compiled([sc], semiring, fold, optimize)
                cc.bind(val)
                got = cc.evaluate(sc, rows, nvars)
            except Exception as e:
                viols.append({"sig": {"kind": "exception", **exc_sig(e), **cfg}, "detail": traceback.format_exc()[-1000:]})
                continue
            counters["configs"] += 1
            counters["compared"] += len(rows)
            if got.shape != exp.shape:
                viols.append({"sig": {"kind": "shape", **cfg}, "detail": f"{got.shape} vs {exp.shape}"})
            elif not close(got, exp, rtol=1e-9, atol=1e-11):
                i = int(np.argmax(np.abs(got - exp).reshape(len(rows), -1).max(axis=1)))
                viols.append({"sig": {"kind": "mismatch", **cfg}, "detail": f"at {rows[i]}: got {got[i].reshape(-1)} expected {exp[i].reshape(-1)} (max|diff|={maxdiff(got, exp):.3e})"})


def layer_fn(sl, val):
    return lambda x: ref.input_layer_value(sl, val, x)


def run_factorization(case, seed, viols, counters):
    kind = case["kind"]
    shape = tuple(case["shape"])
    rank = case["rank"]
    if kind == "tt":
        fp = Parameterization(dtype="complex") if case["cplx"] else None
        sc = tensor_factorizations.tensor_train(shape, rank, factor_param=fp)
    elif kind == "cp":
        wp = Parameterization(activation="none", initialization="normal") if case["weighted"] else None
        sc = tensor_factorizations.cp(shape, rank, input_layer=case["inp"], weight_param=wp)
    else:
        sc = tensor_factorizations.tucker(shape, rank, input_layer=case["inp"])
    cplx = bool(case.get("cplx"))
    val = bind_values(sc, seed, cplx=cplx)
    cval = ref.with_cache(val)
    n = len(shape)
    # domain: index tuples (binomial with total_count = dim has dim + 1 outcomes)
    sizes = [d + 1 if case.get("inp") == "binomial" else d for d in shape]
    rows = [dict(enumerate(t)) for t in itertools.product(*[range(s) for s in sizes])]
    ins = {}
    for sl in sc.input_layers:
        (v,) = tuple(sl.scope)
        ins.setdefault(v, []).append(sl)
    if set(ins) != set(range(n)):
        viols.append({"sig": {"kind": "scope"}, "detail": f"variables {sorted(ins)} instead of {list(range(n))}"})
        return sc
    want_type = {"embedding": L.EmbeddingLayer, "categorical": L.CategoricalLayer, "binomial": L.BinomialLayer}[case.get("inp", "embedding")]
    for v, sls in ins.items():
        for sl in sls:
            if not isinstance(sl, want_type):
                viols.append({"sig": {"kind": "layer-type"}, "detail": f"variable {v}: {type(sl).__name__}"})
            size = getattr(sl, "num_states", None) or getattr(sl, "num_categories", None) or getattr(sl, "total_count", None)
            if size != shape[v]:
                viols.append({"sig": {"kind": "layer-size"}, "detail": f"variable {v}: size {size} for dimension {shape[v]}"})
    if kind in ("cp", "tucker"):
        # factors A^(j)[x, r] = value of unit r of the input layer of variable j at x
        facs = [np.stack([ref.input_layer_value(ins[j][0], cval, {j: x}) for x in range(sizes[j])]) for j in range(n)]
        (s_out,) = list(sc.outputs)
        w = ref.eval_param(s_out.weight, cval)
        if kind == "cp":
            wv = w.reshape(-1)  # (R,)
            letters = "abcdefg"[:n]
            expr = ",".join(f"{c}r" for c in letters) + ",r->" + letters
            tensor = np.einsum(expr, *facs, wv)
        else:
            core = w.reshape((rank,) * n)
            letters, rl = "abcdefg"[:n], "pqrstuv"[:n]
            expr = ",".join(f"{c}{r}" for c, r in zip(letters, rl)) + "," + rl + "->" + letters
            tensor = np.einsum(expr, *facs, core)
        fn = lambda r: tensor[tuple(r[j] for j in range(n))]  # noqa
    else:
        # tensor train: V1[x, r], Vj[x, r_prev, r_next] (r_next = index of the embedding layer), Vn[x, r]
        def emb_w(sl):
            return ref.eval_param(sl.weight, cval)  # (R, I)

        if any(len(ins[j]) != (1 if j in (0, n - 1) else rank) for j in range(n)):
            viols.append({"sig": {"kind": "tt-structure"}, "detail": f"embedding layers per variable: { {j: len(ins[j]) for j in ins} }"})
            return sc
        # the order of the inner embedding layers is the order in which they feed the contraction
        order = {}
        for sl in sc.layers:
            if isinstance(sl, L.SumLayer) and sl.arity == rank and rank > 1:
                prods = sc.layer_inputs(sl)
                for q, p in enumerate(prods):
                    for li in sc.layer_inputs(p):
                        if isinstance(li, L.EmbeddingLayer) and len(ins[min(li.scope)]) == rank:
                            order[li] = q
        v1 = emb_w(ins[0][0]).T  # (I1, R)
        vn = emb_w(ins[n - 1][0]).T
        tensor = np.zeros(shape, dtype=np.complex128)
        inner = []
        for j in range(1, n - 1):
            vj = np.zeros((shape[j], rank, rank), dtype=np.complex128)
            for sl in ins[j]:
                q = order.get(sl, 0) if rank > 1 else 0
                vj[:, :, q] = emb_w(sl).T  # [x, r_prev]
            inner.append(vj)
        for idx in itertools.product(*[range(s) for s in shape]):
            vec = v1[idx[0]]
            for j, vj in enumerate(inner, start=1):
                vec = vec @ vj[idx[j]]
            tensor[idx] = vec @ vn[idx[-1]]
        fn = lambda r: tensor[tuple(r[j] for j in range(n))]  # noqa
    semirings = ["complex-lse-sum"] if cplx else ["sum-product", "complex-lse-sum"]
    compare(sc, val, fn, rows, semirings, viols, counters, nvars=n)
    return sc


PER_VAR = {"categorical": lambda i: {"num_categories": 2 + i}, "binomial": lambda i: {"total_count": 1 + i}, "gaussian": lambda i: {}}


def run_pgm(case, seed, viols, counters):
    inp = case["inp"]
    if case["kind"] == "hmm":
        ordering = case["ordering"]
        n = len(ordering)
        kw = [PER_VAR[inp](i) for i in range(n)] if case["kwargs"] == "per-variable" else {"num_categories": 3}
        if inp == "gaussian":
            kw = None
        sc = pgms.hmm(ordering, input_layer=inp, num_latent_states=case["ks"], input_layer_kwargs=kw)
    else:
        n = case["n"]
        kw = [PER_VAR[inp](i) for i in range(n)] if inp != "gaussian" else None
        sc = pgms.fully_factorized(n, input_layer=inp, input_layer_kwargs=kw)
        ordering = list(range(n))
    val = bind_values(sc, seed)
    cval = ref.with_cache(val)
    ins = {}
    for sl in sc.input_layers:
        (v,) = tuple(sl.scope)
        ins.setdefault(v, []).append(sl)
    if set(ins) != set(range(n)) or any(len(v) != 1 for v in ins.values()):
        viols.append({"sig": {"kind": "scope"}, "detail": f"input layers per variable: { {k: len(v) for k, v in ins.items()} }"})
        return sc
    want_type = {"categorical": L.CategoricalLayer, "binomial": L.BinomialLayer, "gaussian": L.GaussianLayer}[inp]
    for v in range(n):
        sl = ins[v][0]
        if not isinstance(sl, want_type):
            viols.append({"sig": {"kind": "layer-type"}, "detail": f"variable {v}: {type(sl).__name__}"})
        if case["kwargs"] == "per-variable" and inp != "gaussian":
            want = PER_VAR[inp](v)
            for k, a in want.items():
                if getattr(sl, k) != a:
                    viols.append({"sig": {"kind": "per-variable-argument", "template": case["kind"]},
                                  "detail": f"variable {v} got {k}={getattr(sl, k)} but {a} was given for variable id {v} (ordering {ordering})"})
    if viols:
        return sc
    dom = ref.var_domains(sc)
    rows = ref.assignments(dom, cont_grid=(-0.7, 0.2, 1.1), max_rows=40)
    if case["kind"] == "ff":
        fn = lambda r: np.prod([ref.input_layer_value(ins[v][0], cval, r)[0] for v in range(n)])  # noqa
    else:
        ks = case["ks"]
        # transition tables in chain order: the sum layer that follows variable ordering[i]
        sums = {}
        for sl in sc.layers:
            if isinstance(sl, L.SumLayer):
                src = sc.layer_inputs(sl)[0]
                v = min(src.scope) if isinstance(src, L.InputLayer) else [min(li.scope) for li in sc.layer_inputs(src) if isinstance(li, L.InputLayer)][0]
                sums[v] = ref.eval_param(sl.weight, cval)
        def fn(r):  # noqa
            total = 0.0
            for z in itertools.product(range(ks), repeat=n):
                p = 1.0
                for i in range(n):
                    v = ordering[i]
                    p *= ref.input_layer_value(ins[v][0], cval, r)[z[i]]
                    w = sums[v]  # maps latent state of position i to the state of position i-1 (or to the root)
                    p *= w[z[i - 1], z[i]] if i > 0 else w[0, z[0]] if w.shape[0] == 1 else 0.0
                total += p
            return total
        if sums[ordering[0]].shape[0] != 1:
            viols.append({"sig": {"kind": "hmm-structure"}, "detail": "the first variable of the ordering is not followed by the output sum"})
            return sc
    positive = inp != "gaussian" or True
    compare(sc, val, fn, rows, ["sum-product", "lse-sum"], viols, counters, nvars=n)
    return sc


def run_logic(case, seed, viols, counters):
    f = _tup(case["formula"])
    try:
        if case["via"] == "sdd":
            d = tempfile.mkdtemp(prefix="c20_")
            path = os.path.join(d, "f.sdd")
            try:
                with open(path, "w", encoding="utf-8") as fh:
                    fh.write(formula_to_sdd_text(f))
                g = SDD.load(path)
            finally:
                os.remove(path)
                os.rmdir(d)
        else:
            g = formula_to_graph(f, share=bool(case.get("share")), order=case.get("order", "post"))
        sc = g.build_circuit()
    except Exception as e:
        models = sum(1 for x in itertools.product([0, 1], repeat=3) if feval(f, x))
        if not fvars(f) or models in (0, 8):
            # a constant formula has no circuit over a non-empty set of variables: a raise is accepted as refusal
            counters["constant_formula_refused"] = counters.get("constant_formula_refused", 0) + 1
            return None
        viols.append({"sig": {"kind": "build-raised", "via": case["via"], **exc_sig(e)}, "detail": f"formula {f}: {type(e).__name__}: {e}"})
        return None
    vs = sorted(sc.scope)
    fv = sorted(fvars(f))
    if not set(vs) <= set(fv):
        viols.append({"sig": {"kind": "scope", "via": case["via"]}, "detail": f"circuit scope {vs} not within the formula's variables {fv}"})
        return sc
    nvars = (max(fv) + 1) if fv else 1
    rows = [dict(zip(fv, t)) for t in itertools.product([0, 1], repeat=len(fv))] if fv else [{}]
    if not vs:
        return sc  # constant circuit: nothing to evaluate on inputs (covered by build)
    fn = lambda r: 1.0 if feval(f, [r.get(v, 0) for v in range(nvars)]) else 0.0  # noqa
    val = {}
    compare(sc, val, fn, rows, ["sum-product"], viols, counters, nvars=nvars)
    # model count over the circuit's own scope
    try:
        isc = SF.integrate(sc)
        cc = Compiled([sc, isc], "sum-product", True, True)
        z = cc.evaluate(isc, [{}])[0].reshape(-1)[0]
        want = sum(1 for t in itertools.product([0, 1], repeat=len(vs)) if feval(f, [dict(zip(vs, t)).get(v, 0) for v in range(nvars)])) if set(vs) == set(fv) else None
        if want is None:
            # variables dropped by pruning do not affect the truth value: count over the remaining ones
            want = sum(1 for t in itertools.product([0, 1], repeat=len(vs)) if feval(f, [dict(zip(vs, t)).get(v, 0) for v in range(nvars)]))
        counters["compared"] += 1
        if abs(z - want) > 1e-9:
            viols.append({"sig": {"kind": "model-count", "via": case["via"]}, "detail": f"formula {f}: integral {z} but {want} models over {vs}"})
    except Exception as e:
        viols.append({"sig": {"kind": "model-count-raised", "via": case["via"], **exc_sig(e)}, "detail": f"formula {f}: {type(e).__name__}: {e}"})
    return sc


def run_case(case):
    seed = int(os.environ.get("VERIF_SEED", "0"))
    viols = []
    counters = {"configs": 0, "compared": 0}
    dims = {"kind": case["kind"], "inp": case.get("inp", case.get("via", "-"))}
    try:
        if case["kind"] in ("cp", "tucker", "tt"):
            run_factorization(case, seed, viols, counters)
        elif case["kind"] in ("hmm", "ff"):
            run_pgm(case, seed, viols, counters)
        else:
            run_logic(case, seed, viols, counters)
    except ValueError as e:
        if case["kind"] in ("cp", "tucker", "tt") and (len(case["shape"]) == 1 or (min(case["shape"]) < 2 and case.get("inp") != "binomial")):
            return {"status": "refused", "refusal": "ValueError: one-dimensional shape or a dimension of size 1", "nontrivial": False, "dims": dims}
        viols.append({"sig": {"kind": "template-raised", "template": case["kind"], **exc_sig(e)}, "detail": traceback.format_exc()[-1000:]})
    except Exception as e:
        viols.append({"sig": {"kind": "template-raised", "template": case["kind"], **exc_sig(e)}, "detail": traceback.format_exc()[-1000:]})
    uniq = {}
    for v in collapse(viols):
        sig = dict(v["sig"], template=case["kind"])
        uniq.setdefault(repr(sorted(sig.items())), dict(v, sig=sig, case=case))
    out = {"status": "violation" if uniq else "ok", "nontrivial": counters["compared"] >= 2, "dims": dims, "counters": counters,
           "evaluations": max(1, counters["configs"]), "outcome": f"{case['kind']}:{counters['compared']}", "summary": f"{counters}"}
    if uniq:
        out["violations"] = list(uniq.values())
    return out
