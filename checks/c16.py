"""C16 - region-graph constructions are valid and yield well-formed circuits (E1)."""
from __future__ import annotations

import functools
import itertools
import os
import tempfile
import traceback

import numpy as np
import torch

from cirkit.symbolic.layers import CategoricalLayer, HadamardLayer, KroneckerLayer, SumLayer
from cirkit.templates.region_graph import (
    ChowLiuTree, FullyFactorized, LinearTree, PartitionNode, PoonDomingos, QuadGraph, QuadTree, RandomBinaryTree, RegionGraph, RegionNode,
)
from cirkit.templates.region_graph.algorithms.utils import tree2rg

from checks.c09 import circ_props
from mc import structs as S
from mc.util import exc_sig

PROPERTY = "C16"
LEVEL = "exploration"
RULE = (
    "cases = every argument combination in the bounded ranges of RandomBinaryTree (n<=6, every depth, repetitions<=3, seeds 0..7), "
    "LinearTree (n<=5, repetitions<=2, every ordering for n<=4, randomize with seeds 0..7), FullyFactorized (n<=5, repetitions<=3), "
    "QuadTree / QuadGraph (C<=2, H,W<=5, splits 2/4), PoonDomingos (shapes up to (2,4,4), 7 delta forms, 4 max_depth values), tree2rg on "
    "EVERY rooted labelled tree with <= 5 nodes (given as list / int64 / int32 arrays), ChowLiuTree on synthetic categorical / Gaussian / "
    "heterogeneous data sets; each region graph checked against recomputed definitions (root, partitions, flag, dump/load round "
    "trip) and built with {cp, cp-t, tucker} and explicit (Hadamard|Kronecker)+Sum factories x units x num_classes. "
    "Non-trivial: the region graph has at least one partition"
)
ASSUMPTIONS = ["cp-t / tucker with num_input_units != num_sum_units may refuse with the documented ValueError('Cannot build ...')"]
BOUNDS = {"quick": {"rbt_n": 5, "seeds": 4, "tree_nodes": 4}, "thorough": {"rbt_n": 6, "seeds": 8, "tree_nodes": 5}}
CHUNK = 8


def rooted_trees(n):
    """All parent arrays of rooted labelled trees on n nodes."""
    out = []
    for parents in itertools.product(range(-1, n), repeat=n):
        if sum(1 for p in parents if p == -1) != 1 or any(p == i for i, p in enumerate(parents)):
            continue
        ok = True
        for i in range(n):
            seen, j = set(), i
            while j != -1:
                if j in seen:
                    ok = False
                    break
                seen.add(j)
                j = parents[j]
            if not ok:
                break
        if ok:
            out.append(list(parents))
    return out


def cases(tier, seed):
    b = BOUNDS[tier]
    thorough = tier == "thorough"
    for n in range(1, b["rbt_n"] + 1):
        maxd = int(np.ceil(np.log2(n))) if n > 1 else 0
        for depth in [None] + list(range(0, maxd + 1)):
            for reps in (1, 2, 3):
                for sd in range(b["seeds"]):
                    yield {"alg": "rbt", "n": n, "depth": depth, "reps": reps, "seed": sd}
    for n in range(1, 6):
        for reps in (1, 2):
            yield {"alg": "linear", "n": n, "reps": reps, "ordering": None, "randomize": False, "seed": 0}
            if n <= 4:
                for perm in itertools.permutations(range(n)):
                    yield {"alg": "linear", "n": n, "reps": reps, "ordering": list(perm), "randomize": False, "seed": 0}
            for sd in range(b["seeds"]):
                yield {"alg": "linear", "n": n, "reps": reps, "ordering": None, "randomize": True, "seed": sd}
                if n == 3:
                    yield {"alg": "linear", "n": n, "reps": reps, "ordering": [2, 0, 1], "randomize": True, "seed": sd}
        for reps in (1, 2, 3):
            yield {"alg": "ff", "n": n, "reps": reps}
    hw = range(1, 6) if thorough else range(1, 5)
    for c in (1, 2):
        for h in hw:
            for w in hw:
                for splits in (2, 4):
                    yield {"alg": "quadtree", "shape": [c, h, w], "splits": splits}
                yield {"alg": "quadgraph", "shape": [c, h, w]}
    deltas = [1, 2, 3, 1.5, [1, 2], [[1, 2]], [[2, 1], [1, 1]]]
    for c in (1, 2):
        for h in range(1, 5):
            for w in range(1, 5):
                for di, d in enumerate(deltas):
                    for md in (None, 0, 1, 2):
                        if not thorough and c == 2 and (h + w) > 6:
                            continue
                        yield {"alg": "pd", "shape": [c, h, w], "delta": d, "max_depth": md}
    for n in range(1, b["tree_nodes"] + 1):
        for t in rooted_trees(n):
            for form in ("list", "int64", "int32"):
                if form != "int64" and n == 5 and not thorough:
                    continue
                yield {"alg": "tree2rg", "tree": t, "form": form}
    for kind in ("categorical", "gaussian", "hetero"):
        for n in (2, 3, 4):
            for shape_id in range(3):
                for root in (None, 0, n - 1):
                    yield {"alg": "clt", "kind": kind, "n": n, "shape_id": shape_id, "root": root}


def make_rg(case):
    a = case["alg"]
    if a == "rbt":
        return RandomBinaryTree(case["n"], depth=case["depth"], num_repetitions=case["reps"], seed=case["seed"])
    if a == "linear":
        o = None if case["ordering"] is None else list(case["ordering"])
        return LinearTree(case["n"], num_repetitions=case["reps"], ordering=o, randomize=case["randomize"], seed=case["seed"])
    if a == "ff":
        return FullyFactorized(case["n"], num_repetitions=case["reps"])
    if a == "quadtree":
        return QuadTree(tuple(case["shape"]), num_patch_splits=case["splits"])
    if a == "quadgraph":
        return QuadGraph(tuple(case["shape"]))
    if a == "pd":
        return PoonDomingos(tuple(case["shape"]), delta=case["delta"], max_depth=case["max_depth"])
    if a == "tree2rg":
        t = case["tree"]
        arr = t if case["form"] == "list" else np.array(t, dtype=np.int64 if case["form"] == "int64" else np.int32)
        return tree2rg(arr)
    if a == "clt":
        return ChowLiuTree(clt_data(case), input_type=clt_types(case), root=case["root"])
    raise ValueError(a)


def clt_types(case):
    n = case["n"]
    if case["kind"] == "hetero":
        return ["categorical" if i % 2 == 0 else "gaussian" for i in range(n)]
    return case["kind"]


def clt_data(case):
    """Synthetic data with a planted dependence tree (chain / star / mixed)."""
    n, sid = case["n"], case["shape_id"]
    g = torch.Generator().manual_seed(100 + 7 * n + sid)
    m = 400
    parents = {0: [-1] + list(range(n - 1)), 1: [-1] + [0] * (n - 1), 2: [-1, 0] + [1 if i % 2 else 0 for i in range(2, n)]}[sid][:n]
    cols = []
    kinds = clt_types(case)
    for i in range(n):
        kind = kinds[i] if isinstance(kinds, list) else kinds
        p = parents[i]
        if kind == "categorical":
            if p == -1:
                x = torch.randint(0, 3, (m,), generator=g).double()
            else:
                flip = (torch.rand(m, generator=g) < 0.15 + 0.05 * i)
                base = cols[p].round().clamp(0, 2) if p >= 0 else None
                x = torch.where(flip, torch.randint(0, 3, (m,), generator=g).double(), base)
        else:
            noise = torch.randn(m, generator=g, dtype=torch.float64) * (0.4 + 0.1 * i)
            x = noise if p == -1 else cols[p] * 0.9 + noise
        cols.append(x)
    return torch.stack(cols, dim=1)


# ------------------------------------------------------------------ independent checks


def canonical(rg):
    regs = []
    for r in rg.region_nodes:
        parts = sorted(tuple(sorted(tuple(sorted(int(v) for v in c.scope)) for c in rg.partition_inputs(p))) for p in rg.region_inputs(r))
        regs.append((tuple(sorted(int(v) for v in r.scope)), tuple(parts)))
    return sorted(regs), sorted(tuple(sorted(int(v) for v in o.scope)) for o in rg.outputs)


def check_rg(rg, expect_vars):
    probs = []
    outs = list(rg.outputs)
    if len(outs) != 1:
        probs.append(("root", f"{len(outs)} root regions"))
    allv = set().union(*[set(int(v) for v in o.scope) for o in outs]) if outs else set()
    if expect_vars is not None and allv != set(expect_vars):
        probs.append(("root", f"root covers {sorted(allv)} instead of {sorted(expect_vars)}"))
    facts = {}
    for p in rg.partition_nodes:
        ins = rg.partition_inputs(p)
        scopes = [frozenset(int(v) for v in r.scope) for r in ins]
        par = rg.partition_outputs(p)
        if len(par) != 1:
            probs.append(("partition", "a partition node does not have exactly one parent region"))
            continue
        ps = frozenset(int(v) for v in par[0].scope)
        if len(scopes) < 2 or any(not s for s in scopes):
            probs.append(("partition", f"partition of {sorted(ps)} into {[sorted(s) for s in scopes]}"))
        if sum(len(s) for s in scopes) != len(frozenset().union(*scopes)) or frozenset().union(*scopes) != ps:
            probs.append(("partition", f"{[sorted(s) for s in scopes]} is not a partition of {sorted(ps)}"))
        facts.setdefault(ps, set()).add(frozenset(scopes))
    sd = all(len(f) == 1 for f in facts.values())
    if bool(rg.is_structured_decomposable) != sd:
        probs.append(("sd-flag", f"is_structured_decomposable={rg.is_structured_decomposable} but partitions per scope: { {tuple(sorted(k)): len(v) for k, v in facts.items()} }"))
    # every non-root region is used; every region reachable
    return probs, sd, len(facts)


def check_roundtrip(rg):
    d = tempfile.mkdtemp(prefix="c16_")
    path = os.path.join(d, "rg.json")
    try:
        rg.dump(path)
        rg2 = RegionGraph.load(path)
    finally:
        try:
            if os.path.exists(path):
                os.remove(path)
            os.rmdir(d)
        except OSError:
            pass
    if canonical(rg) != canonical(rg2):
        return [("roundtrip", "dump/load changed the region graph")]
    if bool(rg.is_structured_decomposable) != bool(rg2.is_structured_decomposable):
        return [("roundtrip", "dump/load changed the structured-decomposability flag")]
    return []


def build_modes():
    for sp in ("cp", "cp-t", "tucker"):
        for ki, ks in ((1, 1), (2, 2), (3, 3), (2, 3), (3, 2), (1, 2)):
            for nc in (1, 2):
                yield {"sum_product": sp, "ki": ki, "ks": ks, "nc": nc}
    for prod in ("had", "kro"):
        for ki, ks in ((1, 1), (2, 2), (2, 3), (3, 2)):
            for nc in (1, 2):
                yield {"factories": prod, "ki": ki, "ks": ks, "nc": nc}


def input_factory(scope, num_units):
    return CategoricalLayer(scope, num_units, num_categories=2)


def check_build(rg, sd, mode, variables):
    kwargs = dict(input_factory=input_factory, num_input_units=mode["ki"], num_sum_units=mode["ks"], num_classes=mode["nc"])
    if "sum_product" in mode:
        kwargs["sum_product"] = mode["sum_product"]
    else:
        kwargs["sum_factory"] = lambda ni, no: SumLayer(ni, no)
        kwargs["prod_factory"] = (lambda ni, ar: HadamardLayer(ni, arity=ar)) if mode["factories"] == "had" else (lambda ni, ar: KroneckerLayer(ni, arity=ar))
    name = mode.get("sum_product") or ("factories-" + mode["factories"])
    try:
        c = rg.build_circuit(**kwargs)
    except ValueError as e:
        if "sum_product" in mode and mode["sum_product"] in ("cp-t", "tucker") and mode["ki"] != mode["ks"] and "Cannot build" in str(e):
            return [], "refused"
        return [("build-raised", f"{name} ki={mode['ki']} ks={mode['ks']} nc={mode['nc']}: ValueError: {e}", {"mode": name, "exc": "ValueError"})], "error"
    except Exception as e:
        return [("build-raised", f"{name} ki={mode['ki']} ks={mode['ks']} nc={mode['nc']}: {type(e).__name__}: {e}", {"mode": name, **exc_sig(e)})], "error"
    probs = []
    sm, de, fact, total = circ_props(c)
    if not (sm and de) or not (c.is_smooth and c.is_decomposable):
        probs.append(("circuit-not-smooth-decomposable", f"{name}: smooth={sm} decomposable={de}", {"mode": name}))
    if set(int(v) for v in c.scope) != set(variables):
        probs.append(("circuit-scope", f"{name}: scope {sorted(c.scope)} vs {sorted(variables)}", {"mode": name}))
    if sd and not (c.is_structured_decomposable and S.same_split(fact)):
        probs.append(("circuit-not-structured", f"{name}: region graph is structured-decomposable, circuit is not", {"mode": name}))
    for o in c.outputs:
        if o.num_output_units != mode["nc"]:
            probs.append(("circuit-output-units", f"{name}: output has {o.num_output_units} units, requested {mode['nc']}", {"mode": name}))
    return probs, "ok"


def run_case(case):
    dims = {"alg": case["alg"]}
    try:
        rg = make_rg(case)
    except Exception as e:
        return {"status": "violation", "nontrivial": False, "dims": dims,
                "violations": [{"sig": {"kind": "construction-raised", "alg": case["alg"], **exc_sig(e)}, "detail": traceback.format_exc()[-1200:], "case": case}]}
    a = case["alg"]
    if a in ("rbt", "linear", "ff"):
        variables = range(case["n"])
    elif a in ("quadtree", "quadgraph", "pd"):
        variables = range(int(np.prod(case["shape"])))
    elif a == "tree2rg":
        variables = range(len(case["tree"]))
    else:
        variables = range(case["n"])
    viols = []
    probs, sd, nscopes = check_rg(rg, variables)
    for k, msg in probs:
        viols.append({"sig": {"kind": k, "alg": a}, "detail": msg, "case": case})
    try:
        for k, msg in check_roundtrip(rg):
            viols.append({"sig": {"kind": k, "alg": a}, "detail": msg, "case": case})
    except Exception as e:
        viols.append({"sig": {"kind": "roundtrip-raised", "alg": a, **exc_sig(e)}, "detail": traceback.format_exc()[-800:], "case": case})
    counters = {"builds": 0, "build_refusals": 0}
    if not probs:
        for mode in build_modes():
            bp, st = check_build(rg, sd, mode, variables)
            counters["builds"] += 1
            if st == "refused":
                counters["build_refusals"] += 1
            for k, msg, extra in bp:
                viols.append({"sig": {"kind": k, **extra}, "detail": msg, "case": dict(case, mode=mode)})
    # keep one violation per signature
    uniq = {}
    for v in viols:
        uniq.setdefault(repr(sorted(v["sig"].items())), v)
    nparts = sum(1 for _ in rg.partition_nodes)
    out = {"status": "violation" if uniq else "ok", "nontrivial": nparts > 0, "dims": dims, "counters": counters, "evaluations": 1 + counters["builds"],
           "outcome": f"{a}:{nparts}:{sd}", "summary": f"{a}: {nparts} partitions, sd={sd}, builds={counters['builds']}"}
    if uniq:
        out["violations"] = list(uniq.values())
    return out
