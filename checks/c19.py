"""C19 - saved parameters reproduce the circuit after reload (E2)."""
from __future__ import annotations

import copy
import os

import numpy as np
import torch
from torch import nn

from mc import bfs, cdl, pools, ref
from mc.harness import Compiled, circuit_tensor_params, close, maxdiff
from mc.oracle import Pipeline

from checks.c10 import BASES, pipeline_spec

PROPERTY = "C19"
LEVEL = "model_checking"
RULE = (
    "per (pipeline, semiring, fold, optimize): BFS over all histories up to the depth bound of the events {S: save "
    "state_dict (deep copy) and record outputs, U: in-place update, R: reset_parameters, L: compile a FRESH instance of the same "
    "symbolic pipeline in a new compiler with the same flags (fresh random values) and load the last snapshot with strict=True, "
    "LD: the same but loading the snapshot of a derived circuit into the fresh derived circuit}; invariant after every L/LD: "
    "the fresh operand and every fresh derived circuit reproduce the outputs recorded at the save on all inputs; in every state "
    "the learnable entries of state_dict(keep_vars=True) are in bijection with the circuit's nn.Parameters and with the "
    "learnable symbolic tensors' compiled storage; the same exploration on partially frozen models (every second parameterised "
    "layer non-learnable with a random initialiser) and with the fresh instance in evaluation mode, evaluated once before the load. State key = (rounded operand tensor bytes, snapshot bytes)"
)
ASSUMPTIONS = ["aliasing of one operand tensor under several pointer keys in a derived circuit's dictionary is not counted as a duplicate",
               "fresh instances are compiled from the same symbolic objects with a new TorchCompiler"]
BOUNDS = {"quick": {"depth": 3, "bases": 6}, "thorough": {"depth": 5, "bases": 12}}
CHUNK = 1

EVENTS = ["S", "U", "R", "L", "LD"]


def cases(tier, seed):
    for bi in range(BOUNDS[tier]["bases"]):
        base = BASES[bi]
        for semiring, fold, optimize in [("sum-product", False, False), ("sum-product", True, True), ("sum-product", True, False),
                                         ("complex-lse-sum", False, True)]:
            yield {"base": bi, "semiring": semiring, "fold": fold, "optimize": optimize, "depth": BOUNDS[tier]["depth"]}
    # fresh instances in evaluation mode, evaluated once before the load (memoisation in eval mode must not survive a load)
    for bi in range(min(3 if tier == "quick" else 6, BOUNDS[tier]["bases"])):
        for semiring, fold, optimize in [("sum-product", True, True), ("sum-product", False, False)]:
            yield {"base": bi, "semiring": semiring, "fold": fold, "optimize": optimize, "depth": BOUNDS[tier]["depth"] - 1, "mode": "eval"}
    # partially frozen models: every second parameterised layer holds NON-learnable tensors with a random initialiser (their
    # fresh values differ between two compilations, so only the state dictionary can carry them over)
    for bi in range(min(4 if tier == "quick" else 8, BOUNDS[tier]["bases"])):
        for frozen in (("even", "odd") if tier == "thorough" else ("even",) if bi % 2 == 0 else ("odd",)):
            for semiring, fold, optimize in [("sum-product", True, True), ("sum-product", False, False)]:
                yield {"base": bi, "semiring": semiring, "fold": fold, "optimize": optimize, "depth": BOUNDS[tier]["depth"] - 1, "frozen": frozen}


class World:
    def __init__(self, case, seed):
        self.case = case
        base = BASES[case["base"]]
        pspec, self.targets = pipeline_spec(base)
        if case.get("frozen"):
            layers = pspec["circuits"][0]["layers"]
            par = [i for i, l in enumerate(layers) if l["t"] not in ("had", "kro")]
            for j, i in enumerate(par):
                if (j % 2 == 0) == (case["frozen"] == "even"):
                    layers[i] = dict(layers[i], frozen=True)
        self.pipe = Pipeline(pspec)
        self.flags = (case["semiring"], case["fold"], case["optimize"])
        self.cc = Compiled(self.pipe.circuits, *self.flags, compile_only=[0] + self.targets)
        kind = "monotone" if base["inp"].startswith(("gau", "cat")) else "generic"
        self.cc.bind(cdl.valuation(self.pipe.roles, kind, seed))
        self.operand = self.cc.cc(self.pipe.circuits[0])
        self.tensors = [t for t in circuit_tensor_params(self.pipe.circuits[0]) if t in self.pipe.roles]
        self.nvars = cdl.max_var(self.pipe.circuits) + 1
        dom = self.pipe.domains()
        grid = (0.2, 0.9, 1.5) if base["inp"].startswith("poly") else (-0.7, 0.3, 1.2)
        self.rows = {}
        for t in [0] + self.targets:
            sv = self.pipe.scope(t)
            self.rows[t] = ref.assignments({v: dom[v] for v in sv}, cont_grid=grid, max_rows=6) if sv else [{}]
        self.snapshot = None
        self.snap_derived = None
        self.recorded = None
        self.n_updates = 0
        self.n_resets = 0
        self.n_fresh = 0

    def outputs(self, cc):
        return {t: cc.evaluate(self.pipe.circuits[t], self.rows[t], self.nvars) for t in [0] + self.targets}

    def sanitize(self, cc):
        with torch.no_grad():
            for t in self.tensors:
                role = self.pipe.roles[t]
                tp, idx = cc.slot(t)
                d = tp._ptensor.data[idx]
                if role == "stddev":
                    d.copy_(0.6 + 0.8 * torch.sigmoid(d))
                elif role == "probs":
                    d.copy_(torch.softmax(d, dim=-1))
                elif role == "bprobs":
                    d.copy_(0.15 + 0.7 * torch.sigmoid(d))

    def apply(self, ev):
        probs = []
        if ev == "S":
            self.snapshot = copy.deepcopy(self.operand.state_dict())
            dt = self.targets[-1]
            self.snap_derived = copy.deepcopy(self.cc.cc(self.pipe.circuits[dt]).state_dict())
            self.recorded = self.outputs(self.cc)
        elif ev == "U":
            self.n_updates += 1
            t = self.tensors[self.n_updates % len(self.tensors)]
            tp, idx = self.cc.slot(t)
            with torch.no_grad():
                d = tp._ptensor.data[idx]
                d += (torch.linspace(0.04, 0.11, d.numel()).reshape(d.shape) * self.n_updates).to(d.dtype)
        elif ev == "R":
            self.n_resets += 1
            torch.manual_seed(500 + self.n_resets)
            self.operand.reset_parameters()
            self.sanitize(self.cc)
        elif ev in ("L", "LD"):
            if self.snapshot is None:
                return probs
            self.n_fresh += 1
            torch.manual_seed(9000 + self.n_fresh)  # "whatever its fresh initial values"
            # L: only the operand exists when the snapshot is loaded; the derived circuits are compiled afterwards in
            #    the same context (lazily, on evaluation). LD: everything is compiled first, then the derived dict is loaded.
            fresh = Compiled(self.pipe.circuits, *self.flags, compile_only=[0] if ev == "L" else [0] + self.targets)
            if self.case.get("mode") == "eval":
                # the fresh instance is put in evaluation mode and evaluated once BEFORE the dictionary is loaded
                self.sanitize(fresh)  # fresh random values must lie in the layers' domains (stddev > 0, ...) to be evaluated
                for t in ([0] if ev == "L" else [0] + self.targets):
                    fresh.cc(self.pipe.circuits[t]).eval()
                    fresh.evaluate(self.pipe.circuits[t], self.rows[t], self.nvars)
            try:
                if ev == "L":
                    res = fresh.cc(self.pipe.circuits[0]).load_state_dict(self.snapshot, strict=True)
                else:
                    res = fresh.cc(self.pipe.circuits[self.targets[-1]]).load_state_dict(self.snap_derived, strict=True)
            except Exception as e:  # noqa
                probs.append((f"load_state_dict(strict=True) into a fresh instance raised {type(e).__name__}: {str(e)[:300]}", {"kind": "load-raised", "event": ev}))
                return probs
            if res.missing_keys or res.unexpected_keys:
                probs.append((f"missing={res.missing_keys[:3]} unexpected={res.unexpected_keys[:3]}", {"kind": "load-keys", "event": ev}))
            got = self.outputs(fresh)
            for t in [0] + self.targets:
                if not close(got[t], self.recorded[t], rtol=1e-12, atol=1e-14):
                    opn = (self.pipe.op_of(t) or {"op": "operand"})["op"]
                    probs.append((f"after {ev}: fresh {opn} (circuit {t}) differs from the saved one by {maxdiff(got[t], self.recorded[t]):.3e}",
                                  {"kind": "reload-mismatch", "event": ev, "op": opn}))
                    break
        return probs

    def invariant(self):
        probs = []
        sd = self.operand.state_dict(keep_vars=True)
        learn = {k: v for k, v in sd.items() if isinstance(v, nn.Parameter) and v.requires_grad}
        params = {id(p): n for n, p in self.operand.named_parameters() if p.requires_grad}
        ids = [id(v) for v in learn.values()]
        if len(set(ids)) != len(ids):
            probs.append(("a learnable tensor appears twice in the operand's state_dict", {"kind": "state-dict-duplicate"}))
        if set(ids) != set(params):
            probs.append((f"state_dict learnable entries ({len(set(ids))}) != nn.Parameters ({len(params)})", {"kind": "state-dict-bijection"}))
        store = set()
        for t in self.tensors:
            if t.learnable:
                tp, _ = self.cc.slot(t)
                store.add(id(tp._ptensor))
        if store != set(params):
            probs.append((f"compiled storage of learnable symbolic tensors ({len(store)}) != nn.Parameters ({len(params)})", {"kind": "storage-bijection"}))
        return probs

    def key(self):
        h = [np.round(self.cc.read(t), 9).tobytes() for t in self.tensors]
        if self.snapshot is not None:
            h += [np.round(v.detach().numpy().astype(np.complex128), 9).tobytes() for v in self.snapshot.values() if torch.is_tensor(v) and v.dtype != torch.int64]
        return hash(b"".join(h))


def replay_factory(case, seed):
    def replay(hist):
        w = World(case, seed)
        problems = w.invariant()
        for i, ev in enumerate(hist):
            p = w.apply(ev)
            if i == len(hist) - 1:
                problems = p + w.invariant()
        return {"saved": w.snapshot is not None}, w.key(), problems

    return replay


def enabled(m):
    return EVENTS if m.get("saved") else ["S", "U", "R"]


def run_case(case):
    seed = int(os.environ.get("VERIF_SEED", "0"))
    if "history" in case:
        _, _, probs = replay_factory(case, seed)(case["history"])
        if probs:
            return {"status": "violation", "nontrivial": True, "violations": [{"sig": probs[0][1], "detail": probs[0][0], "case": case}], "sig": probs[0][1], "detail": probs[0][0]}
        return {"status": "ok", "nontrivial": True}
    res = bfs.explore(lambda: {"saved": False}, enabled, replay_factory(case, seed), case["depth"], isolate=False)
    out = {"status": "violation" if res.violations else "ok", "nontrivial": res.states > 1, "nontrivial_n": max(0, res.states - 1),
           "states": res.states, "transitions": res.transitions, "traces": res.replays, "evaluations": res.transitions,
           "dims": {"base": case["base"], "cfg": f"{case['semiring']}/{case['fold']}/{case['optimize']}", "frozen": str(case.get("frozen")), "mode": case.get("mode", "train")},
           "outcome": f"{res.states}", "summary": f"states={res.states} transitions={res.transitions} e.g. {res.sample_histories[:1]}"}
    if res.violations:
        out["violations"] = [{"sig": sig, "detail": msg, "case": dict(case, history=hist)} for hist, msg, sig in res.violations]
    return out
