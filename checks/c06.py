"""C06 - evidence and concatenate implement conditioning and output stacking (E1)."""
from __future__ import annotations

import itertools
import os

from mc import alphabet as A
from mc import pools
from mc.pipecheck import check_pipeline, collapse

PROPERTY = "C06"
LEVEL = "exploration"
RULE = (
    "evidence: circuits of the bounded grammar x every non-empty subset of variables as observation x every value of the "
    "observed variables' domain (grid for continuous) x every assignment of the rest, incl. evidence followed by integrate / "
    "square / a second evidence; concatenate: every list of length 1..3 (repetition allowed) from a pool of circuits. "
    "All under every semiring x (fold, optimize). Oracle: substitution into / stacking of the operands' reference functions. "
    "Non-trivial: result compared with the oracle under >= 1 configuration"
)
ASSUMPTIONS = ["generic / monotone valuations (VERIF_SEED)", "observed values of continuous variables from a 3-point grid"]
BOUNDS = {"quick": {"max_vars": 3}, "thorough": {"max_vars": 3}}
CHUNK = 4

KINDS = ["emb", "cat-logits", "cat-probs", "bin-probs", "gau", "gau-lp", "poly2"]


def obs_values(inp, pos):
    if inp.startswith(("gau", "poly")):
        # Python ints and floats are mixed on purpose (the observation tensors then differ in dtype)
        return [1, -0.6, 1.3] if pos % 2 == 0 else [-0.6, 0, 1.3]
    if inp.startswith("bin"):
        return list(range(2 + (pos % 2)))
    return list(range(2 + (pos % 2)))


def cases(tier, seed):
    thorough = tier == "thorough"
    for tree, prod, style, nary in pools.structure_pool(tier):
        nv = len(A.tree_vars(tree))
        positions = sorted(A.tree_vars(tree))
        for inp in KINDS:
            for numbering in ["id", "h8"] + (["gap"] if thorough and inp in ("emb", "gau", "cat-logits") else []):
                if not thorough and numbering == "h8" and inp not in ("emb", "gau"):
                    continue
                if not thorough and nv == 3 and inp in ("cat-probs", "gau-lp", "bin-probs") and style != "cpt":
                    continue
                ids = A.NUMBERINGS[numbering]
                k = 2 if prod == "had" else (2 if nv <= 2 else 1)
                circ = dict(tree=tree, prod=prod, style=style, nary=nary, kin=k, ksum=k, kout=1, inp=inp, numbering=numbering)
                for sub in pools.subsets(positions):
                    doms = [obs_values(inp, p) for p in sub]
                    combos = list(itertools.product(*doms))
                    if thorough and len(combos) > 6:
                        combos = combos[:3] + combos[-3:]
                    if not thorough and len(combos) > 2:
                        combos = [combos[0], combos[-1]] if inp in ("emb", "gau", "cat-logits") else [combos[-1]]
                    for vals in combos:
                        obs = {str(ids[p]): v for p, v in zip(sub, vals)}
                        yield {"mode": "evidence", "circ": circ, "obs": obs, "vk": "generic" if inp in ("emb", "poly2") else "monotone"}
    # evidence followed by other operators; observation value types
    for tree in A.REPRESENTATIVE_TREES + [("P", [0, 1])]:
        for prod in ["had", "kro"]:
            for inp in ["emb", "cat-logits", "gau"]:
                circ = dict(tree=tree, prod=prod, style="cpt", nary="dense", kin=2, ksum=2, kout=1, inp=inp, numbering="h9", outputs="two")
                ids = pools.var_ids(tree, "h9")
                for ov in ids:
                    val = 0.4 if inp == "gau" else 1
                    rest = [v for v in ids if v != ov]
                    yield {"mode": "evi-int", "circ": circ, "obs": {str(ov): val}, "z": rest[:1], "vk": "monotone"}
                    yield {"mode": "evi-int", "circ": circ, "obs": {str(ov): val}, "z": None, "vk": "monotone"}
                    yield {"mode": "evi-square", "circ": circ, "obs": {str(ov): val}, "vk": "monotone"}
                    for ov2 in rest:
                        yield {"mode": "evi-evi", "circ": circ, "obs": {str(ov): val}, "obs2": {str(ov2): 0}, "vk": "monotone"}
    # concatenate: every list of length 1..3 from a pool of 4 circuits
    pool = [
        dict(tree=("P", [0, 1]), prod="had", style="cpt", nary="dense", kin=2, ksum=2, kout=2, inp="emb", numbering="id"),
        dict(tree=("P", [0, 1, 2]), prod="kro", style="cpt", nary="dense", kin=1, ksum=2, kout=2, inp="cat-logits", numbering="id"),
        dict(tree=0, prod="had", style="cpt", nary="dense", kin=2, ksum=2, kout=2, inp="emb", numbering="id"),
        dict(tree=("P", [("P", [0, 2]), 1]), prod="had", style="cp", nary="dense", kin=2, ksum=2, kout=2, inp="emb", numbering="id", outputs="two"),
    ]
    for n in (1, 2, 3):
        for combo in itertools.product(range(len(pool)), repeat=n):
            yield {"mode": "concat", "pool": pool, "combo": list(combo), "vk": "monotone"}


def pipeline_of(case):
    m = case["mode"]
    if m == "concat":
        specs = [pools.spec_from(c) for c in case["pool"]]
        return {"circuits": specs, "ops": [{"op": "concatenate", "args": case["combo"]}]}, [len(specs)]
    spec = pools.spec_from(case["circ"])
    if spec is None:
        return None, None
    ops = [{"op": "evidence", "args": [0], "obs": case["obs"]}]
    if m == "evi-int":
        ops.append({"op": "integrate", "args": [1], "scope": case["z"]})
    elif m == "evi-square":
        ops.append({"op": "multiply", "args": [1, 1]})
    elif m == "evi-evi":
        ops.append({"op": "evidence", "args": [1], "obs": case["obs2"]})
    return {"circuits": [spec], "ops": ops}, [len(ops)] if m == "evidence" else [1, len(ops)]


def run_case(case):
    seed = int(os.environ.get("VERIF_SEED", "0"))
    pspec, targets = pipeline_of(case)
    if pspec is None:
        return {"status": "skip", "nontrivial": False}
    if case["mode"] == "evi-int" and case["z"] is None:
        # integrate everything that is left (skip if nothing is left)
        pass
    r = check_pipeline(pspec, targets, vk=case["vk"], seed=seed, max_rows=16)
    c = case.get("circ", {})
    dims = {"mode": case["mode"], "inp": c.get("inp", "-"), "prod": c.get("prod", "-"), "numbering": c.get("numbering", "-"),
            "nobs": len(case.get("obs", {}))}
    if r["status"] == "refused":
        ok = case["mode"] in ("evi-square",) or (case["mode"] == "evi-int" and "no variables" in str(r))
        if case["mode"] == "evi-int":
            ok = True  # nothing left to integrate -> ValueError is the documented answer
        if not ok:
            return {"status": "violation", "nontrivial": False, "dims": dims,
                    "violations": [{"sig": {"kind": "unexpected-refusal", "refusal": r["refusal"], "mode": case["mode"]}, "detail": r["refusal"], "case": case}]}
        return {"status": "refused", "refusal": r["refusal"], "nontrivial": False, "dims": dims}
    out = {"status": r["status"], "nontrivial": r["counters"].get("compared", 0) > 0, "counters": r["counters"],
           "evaluations": max(1, r["counters"].get("configs", 0)), "dims": dims, "outcome": f"{case['mode']}:{r.get('rows')}",
           "summary": f"{r['counters']}"}
    if r["violations"]:
        out["violations"] = [dict(v, case=case) for v in collapse(r["violations"])]
    return out
