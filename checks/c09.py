"""C09 - operators refuse invalid inputs and results keep the promised structure (E1, symbolic)."""
from __future__ import annotations

import itertools

from cirkit.symbolic import functional as SF
from cirkit.symbolic.circuit import StructuralPropertyError, are_compatible
from cirkit.symbolic.layers import InputLayer, ProductLayer, SumLayer
from cirkit.utils.scope import Scope

from mc import structs as S
from mc.util import exc_sig

PROPERTY = "C09"
LEVEL = "exploration"
RULE = (
    "population = all symbolic circuit structures with <= N layers over <= 3 variables (valid and invalid: non-smooth, "
    "non-decomposable, empty scopes, multivariate inputs); every structure is fed to integrate (every subset Z of {0,1,2,3} "
    "incl. empty and out-of-scope), differentiate (orders -1,0,1,2), evidence (every subset incl. empty / out-of-scope / "
    "partial multivariate), conjugate, concatenate; every ordered pair (<= M layers) to multiply; compiled invalid circuits to "
    "the query constructors. Oracle: documented exception type and no circuit for invalid input; structural post-conditions "
    "recomputed with independent set-based definitions when an operator returns. Non-trivial: a structure with an inner layer"
)
ASSUMPTIONS = ["one unit per layer (structure only)", "predicates used on results were validated independently by C08"]
BOUNDS = {"quick": {"max_layers": 4, "pair_max_layers": 4}, "thorough": {"max_layers": 6, "pair_max_layers": 4}}
CHUNK = 1
SHARDS = 64


def cases(tier, seed):
    n = BOUNDS[tier]["max_layers"]
    for p in S.prefixes(min(n, 4)):
        yield {"type": "singles", "prefix": p, "n": n}
    for s in range(SHARDS):
        yield {"type": "pairs", "shard": s, "n": BOUNDS[tier]["pair_max_layers"]}
    yield {"type": "queries", "n": 4}


# ---------------------------------------------------------------- independent definitions on Circuit objects


def circ_scopes(c):
    sc = {}
    for sl in c.topological_ordering():
        if isinstance(sl, InputLayer):
            sc[sl] = frozenset(sl.scope)
        else:
            sc[sl] = frozenset().union(*[sc[i] for i in c.layer_inputs(sl)])
    return sc


def circ_props(c):
    sc = circ_scopes(c)
    smooth = all(len({sc[i] for i in c.layer_inputs(sl)}) == 1 for sl in c.layers if isinstance(sl, SumLayer))
    dec = all(not (sc[a] & sc[b]) for sl in c.layers if isinstance(sl, ProductLayer)
              for a, b in itertools.combinations(c.layer_inputs(sl), 2))
    fact = {}
    for sl in c.layers:
        if isinstance(sl, ProductLayer):
            subs = [sc[i] for i in c.layer_inputs(sl) if sc[i]]
            if len(subs) > 1:
                fact.setdefault(sc[sl], set()).add(frozenset(subs))
    total = frozenset().union(*[sc[o] for o in c.outputs])
    return smooth, dec, fact, total


class V:
    def __init__(self):
        self.v = {}

    def add(self, kind, case, detail, **extra):
        key = kind + "|" + "|".join(f"{k}={x}" for k, x in sorted(extra.items()))
        if key not in self.v or len(str(case)) < len(str(self.v[key]["case"])):
            self.v[key] = {"sig": {"kind": kind, **extra}, "detail": detail, "case": case}


def call(fn, *a, **k):
    try:
        return fn(*a, **k), None
    except Exception as e:  # noqa
        return None, e


def check_single(struct, viol, counters):
    sm, de = S.ref_properties(struct)
    valid = sm and de
    scope = sorted(S.scopes_of(struct)[-1].union(*[S.scopes_of(struct)[i] for i in S.sinks(struct)]))
    nout = len(S.sinks(struct))
    # ---------------- integrate
    c = S.build(struct)
    for z in [None] + [list(t) for r in range(0, 4) for t in itertools.combinations([0, 1, 2, 3], r)]:
        case = {"type": "single", "struct": struct, "op": "integrate", "z": z}
        res, e = call(SF.integrate, c, None if z is None else Scope(z))
        counters["integrate"] += 1
        zeff = scope if z is None else z
        bad_scope = (len(zeff) == 0) or not set(zeff) <= set(scope)
        if not valid:
            if res is not None or not isinstance(e, (StructuralPropertyError, ValueError)):
                viol.add("integrate-accepts-invalid-circuit", case, f"smooth={sm} decomposable={de} -> {type(e).__name__ if e else 'returned'}")
            elif not bad_scope and not isinstance(e, StructuralPropertyError):
                viol.add("integrate-wrong-error-type", case, f"expected StructuralPropertyError, got {type(e).__name__}")
            continue
        if bad_scope:
            if res is not None or not isinstance(e, ValueError):
                viol.add("integrate-accepts-invalid-scope", case, f"scope={scope} z={z} -> {type(e).__name__ if e else 'returned'}")
            continue
        if e is not None:
            if type(e).__name__ in ("OperatorSignatureNotFound", "NotImplementedError", "ValueError"):
                counters["refusal"] += 1
                continue
            viol.add("integrate-internal-error", case, f"{type(e).__name__}: {e}", **exc_sig(e))
            continue
        check_result(res, case, viol, exp_scope=set(scope) - set(zeff), exp_nout=nout, what="integrate")
    # ---------------- differentiate (polynomial inputs)
    cp = S.build(struct, kind="poly")
    for order in (-1, 0, 1, 2):
        case = {"type": "single", "struct": struct, "op": "differentiate", "order": order}
        res, e = call(SF.differentiate, cp, order)
        counters["differentiate"] += 1
        if not valid:
            if res is not None or not isinstance(e, (StructuralPropertyError, ValueError)):
                viol.add("differentiate-accepts-invalid-circuit", case, f"smooth={sm} decomposable={de} -> {type(e).__name__ if e else 'returned'}")
            elif order > 0 and not isinstance(e, StructuralPropertyError):
                viol.add("differentiate-wrong-error-type", case, f"expected StructuralPropertyError, got {type(e).__name__}")
            continue
        if order <= 0:
            if res is not None or not isinstance(e, ValueError):
                viol.add("differentiate-accepts-bad-order", case, f"order={order} -> {type(e).__name__ if e else 'returned'}")
            continue
        if e is not None:
            if type(e).__name__ in ("OperatorSignatureNotFound", "NotImplementedError", "ValueError"):
                counters["refusal"] += 1
                continue
            viol.add("differentiate-internal-error", case, f"{type(e).__name__}: {e}", **exc_sig(e))
            continue
        sc = S.scopes_of(struct)
        exp_nout = sum(len(sc[i]) + 1 for i in S.sinks(struct))
        check_result(res, case, viol, exp_scope=set(scope), exp_nout=exp_nout, what="differentiate")
    # ---------------- evidence
    in_scopes = [frozenset(a) for t, a in struct if t == "in"]
    for z in [list(t) for r in range(0, 4) for t in itertools.combinations([0, 1, 2, 3], r)]:
        case = {"type": "single", "struct": struct, "op": "evidence", "z": z}
        res, e = call(SF.evidence, c, {v: 1 for v in z})
        counters["evidence"] += 1
        if len(z) == 0 or not set(z) <= set(scope):
            if res is not None or not isinstance(e, ValueError):
                viol.add("evidence-accepts-invalid-observation", case, f"scope={scope} obs={z} -> {type(e).__name__ if e else 'returned'}")
            continue
        partial = any((s & set(z)) and not s <= set(z) for s in in_scopes)
        if partial:
            if res is not None or not isinstance(e, NotImplementedError):
                viol.add("evidence-partial-multivariate", case, f"-> {type(e).__name__ if e else 'returned'}")
            continue
        if e is not None:
            viol.add("evidence-internal-error", case, f"{type(e).__name__}: {e}", **exc_sig(e))
            continue
        check_result(res, case, viol, exp_scope=set(scope) - set(z), exp_nout=nout, what="evidence", need_sd=False)
    # ---------------- conjugate
    case = {"type": "single", "struct": struct, "op": "conjugate"}
    res, e = call(SF.conjugate, c)
    counters["conjugate"] += 1
    if e is not None:
        if type(e).__name__ in ("OperatorSignatureNotFound",):
            counters["refusal"] += 1
        else:
            viol.add("conjugate-internal-error", case, f"{type(e).__name__}: {e}", **exc_sig(e))
    else:
        if res.properties != c.properties:
            viol.add("conjugate-changes-flags", case, f"{c.properties} -> {res.properties}")
        check_result(res, case, viol, exp_scope=set(scope), exp_nout=nout, what="conjugate", need_sd=False, same_flags=(sm, de))
    # ---------------- concatenate with itself
    case = {"type": "single", "struct": struct, "op": "concatenate"}
    res, e = call(SF.concatenate, [c, c])
    counters["concatenate"] += 1
    if e is not None:
        viol.add("concatenate-internal-error", case, f"{type(e).__name__}: {e}", **exc_sig(e))
    else:
        check_result(res, case, viol, exp_scope=set(scope), exp_nout=2 * nout, what="concatenate", need_sd=False, same_flags=(sm, de))


def check_result(res, case, viol, exp_scope, exp_nout, what, need_sd=True, same_flags=None):
    sm, de, fact, total = circ_props(res)
    if need_sd and not (sm and de):
        viol.add(f"{what}-result-not-smooth-decomposable", case, f"smooth={sm} decomposable={de}")
    if same_flags is not None and (sm, de) != tuple(same_flags):
        viol.add(f"{what}-result-flags-differ", case, f"operand {same_flags} result {(sm, de)}")
    if (res.is_smooth, res.is_decomposable) != (sm, de):
        viol.add(f"{what}-result-flags-wrong", case, f"flags {(res.is_smooth, res.is_decomposable)} definition {(sm, de)}")
    if set(res.scope) != set(exp_scope) or set(total) != set(exp_scope):
        viol.add(f"{what}-result-scope", case, f"scope {sorted(res.scope)} (layers: {sorted(total)}) expected {sorted(exp_scope)}")
    if len(res.outputs) != exp_nout:
        viol.add(f"{what}-result-outputs", case, f"{len(res.outputs)} outputs, expected {exp_nout}")


def run_singles(case):
    viol = V()
    counters = {"integrate": 0, "differentiate": 0, "evidence": 0, "conjugate": 0, "concatenate": 0, "refusal": 0, "structures": 0}
    nontrivial = 0
    for struct in S.completions(case["prefix"], case["n"]):
        counters["structures"] += 1
        nontrivial += 1 if any(t != "in" for t, _ in struct) else 0
        check_single(struct, viol, counters)
    ev = sum(counters[k] for k in ("integrate", "differentiate", "evidence", "conjugate", "concatenate"))
    res = {"status": "violation" if viol.v else "ok", "nontrivial": nontrivial > 0, "nontrivial_n": max(0, nontrivial - 1),
           "evaluations": ev, "counters": counters, "dims": {"type": "singles"}, "summary": f"{counters}"}
    if viol.v:
        res["violations"] = list(viol.v.values())
    return res


_POOL = {}


def pool(n):
    if n not in _POOL:
        structs, seen = [], set()
        for p in S.prefixes(min(n, 4)):
            for s in S.completions(p, n):
                if repr(s) not in seen:
                    seen.add(repr(s))
                    structs.append(s)
        _POOL[n] = [(s, S.build(s), S.ref_properties(s), S.factorizations(s)) for s in structs]
    return _POOL[n]


def check_pair(sa, ca, pa, fa, sb, cb, pb, fb, viol, counters):
    case = {"type": "pair", "a": sa, "b": sb}
    res, e = call(SF.multiply, ca, cb)
    counters["multiply"] += 1
    compat = are_compatible(ca, cb)
    same_scope = set(ca.scope) == set(cb.scope)
    should_refuse = (not (pa[0] and pa[1] and pb[0] and pb[1])) or not S.same_split(fa, fb) or not compat or not same_scope
    if res is None:
        counters["raised"] += 1
        return
    counters["returned"] += 1
    if should_refuse:
        viol.add("multiply-accepts-incompatible", case, f"valid_a={pa} valid_b={pb} same_split={S.same_split(fa, fb)} are_compatible={compat} same_scope={same_scope}")
        return
    sm, de, fact, total = circ_props(res)
    if not (sm and de):
        viol.add("multiply-result-not-smooth-decomposable", case, f"smooth={sm} decomposable={de}")
    if (res.is_smooth, res.is_decomposable) != (sm, de):
        viol.add("multiply-result-flags-wrong", case, f"flags {(res.is_smooth, res.is_decomposable)} definition {(sm, de)}")
    if set(res.scope) != set(ca.scope):
        viol.add("multiply-result-scope", case, f"{sorted(res.scope)} vs {sorted(ca.scope)}")
    if len(res.outputs) != len(ca.outputs) * len(cb.outputs):
        viol.add("multiply-result-outputs", case, f"{len(res.outputs)} outputs")
    if ca.is_structured_decomposable and cb.is_structured_decomposable:
        counters["sd-products"] += 1
        if not res.is_structured_decomposable or not S.same_split(fact):
            viol.add("multiply-result-not-structured", case, f"is_sd={res.is_structured_decomposable} factorizations={fact}")
        for x, y, n in ((res, ca, "res,a"), (ca, res, "a,res"), (res, cb, "res,b"), (cb, res, "b,res")):
            if not are_compatible(x, y):
                viol.add("multiply-result-not-compatible-with-operand", case, f"are_compatible({n}) is False")
                break
        if not (S.same_split(fact, fa) and S.same_split(fact, fb)):
            viol.add("multiply-result-splits-differently", case, f"{fact} vs {fa} / {fb}")


def run_pairs(case):
    items = pool(case["n"])
    viol = V()
    counters = {"multiply": 0, "raised": 0, "returned": 0, "sd-products": 0}
    for i, (sa, ca, pa, fa) in enumerate(items):
        if i % SHARDS != case["shard"]:
            continue
        for sb, cb, pb, fb in items:
            if set(ca.scope) != set(cb.scope) and (len(sa) + len(sb)) > 5:
                continue  # different scopes: NotImplementedError by the first check; sample only small ones
            check_pair(sa, ca, pa, fa, sb, cb, pb, fb, viol, counters)
    res = {"status": "violation" if viol.v else "ok", "nontrivial": counters["returned"] > 0, "nontrivial_n": max(0, counters["returned"] - 1),
           "evaluations": counters["multiply"], "counters": counters, "dims": {"type": "pairs"}, "summary": f"{counters}"}
    if viol.v:
        res["violations"] = list(viol.v.values())
    return res


def run_queries(case):
    import torch

    from cirkit.backend.torch.compiler import TorchCompiler
    from cirkit.backend.torch.queries import IntegrateQuery, SamplingQuery

    viol = V()
    counters = {"queries": 0, "invalid": 0}
    for s, c, (sm, de), f in pool(case["n"]):
        if any(t == "in" and len(a) != 1 for t, a in s):
            continue
        if len(s) > 4:
            continue
        try:
            cc = TorchCompiler().compile(S.build(s, kind="cat"))
        except Exception:
            continue
        for name, Q in (("IntegrateQuery", IntegrateQuery), ("SamplingQuery", SamplingQuery)):
            counters["queries"] += 1
            q, e = call(Q, cc)
            if not (sm and de):
                counters["invalid"] += 1
                if q is not None or not isinstance(e, ValueError):
                    viol.add("query-accepts-invalid-circuit", {"type": "query", "struct": s, "query": name}, f"{name}: smooth={sm} decomposable={de} -> {type(e).__name__ if e else 'constructed'}")
            elif e is not None:
                viol.add("query-refuses-valid-circuit", {"type": "query", "struct": s, "query": name}, f"{name}: {type(e).__name__}: {e}")
    res = {"status": "violation" if viol.v else "ok", "nontrivial": counters["invalid"] > 0, "evaluations": counters["queries"], "counters": counters,
           "dims": {"type": "queries"}, "summary": f"{counters}"}
    if viol.v:
        res["violations"] = list(viol.v.values())
    return res


def run_case(case):
    t = case["type"]
    if t == "singles":
        return run_singles(case)
    if t == "pairs":
        return run_pairs(case)
    if t == "queries":
        return run_queries(case)
    # replay shapes
    viol = V()
    if t == "single":
        check_single(case["struct"], viol, {k: 0 for k in ("integrate", "differentiate", "evidence", "conjugate", "concatenate", "refusal", "structures")})
    elif t == "pair":
        sa, sb = case["a"], case["b"]
        check_pair(sa, S.build(sa), S.ref_properties(sa), S.factorizations(sa), sb, S.build(sb), S.ref_properties(sb), S.factorizations(sb), viol,
                   {"multiply": 0, "raised": 0, "returned": 0, "sd-products": 0})
    else:
        return run_queries({"n": 4})
    vs = list(viol.v.values())
    return {"status": "violation" if vs else "ok", "nontrivial": True, "violations": vs, **({"sig": vs[0]["sig"], "detail": vs[0]["detail"]} if vs else {})}
