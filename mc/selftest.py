"""Setup / self-test: imports, reference model sanity, MANIFEST + evidence schema validation."""
from __future__ import annotations

import json
import os
import subprocess
import sys

import numpy as np

VERIF = os.path.dirname(os.path.dirname(os.path.abspath(__file__)))


def ref_sanity():
    from mc import cdl, ref

    # hand-computed: sum over a Hadamard of two 2-state embeddings
    spec = {"layers": [{"t": "emb", "v": 0, "k": 2, "n": 2}, {"t": "emb", "v": 1, "k": 2, "n": 2},
                       {"t": "had", "in": [0, 1]}, {"t": "sum", "in": [2], "k": 1, "w": "dense"}], "outputs": [3]}
    sc, roles = cdl.build_circuit(spec)
    ts = list(roles)
    val = {ts[0]: np.array([[1.0, 2.0], [3.0, 4.0]]), ts[1]: np.array([[5.0, 6.0], [7.0, 8.0]]), ts[2]: np.array([[0.5, -1.0]])}
    got = ref.eval_circuit(sc, val, {0: 1, 1: 0})[0]
    want = 0.5 * (2.0 * 5.0) - 1.0 * (4.0 * 7.0)
    assert abs(got[0] - want) < 1e-12, (got, want)
    z = ref.integrate_ref(sc, val, [0, 1], {})
    want_z = sum(0.5 * val[ts[0]][0, a] * val[ts[1]][0, b] - val[ts[0]][1, a] * val[ts[1]][1, b] for a in range(2) for b in range(2))
    assert abs(z[0, 0] - want_z) < 1e-12
    # Kronecker unit order and mixing weights
    w = ref.apply_pnode(__import__("cirkit.symbolic.parameters", fromlist=["x"]).MixingWeightParameter((2, 2)), [np.array([[1.0, 2.0], [3.0, 4.0]])])
    assert np.array_equal(w, np.array([[1.0, 0.0, 2.0, 0.0], [0.0, 3.0, 0.0, 4.0]]))
    # Gaussian quadrature integrates a normal density to 1
    spec = {"layers": [{"t": "gau", "v": 0, "k": 1, "lp": False}, {"t": "sum", "in": [0], "k": 1, "w": "dense"}], "outputs": [1]}
    sc, roles = cdl.build_circuit(spec)
    ts = list(roles)
    val = {ts[0]: np.array([0.3]), ts[1]: np.array([0.8]), ts[2]: np.array([[2.0]])}
    z = ref.integrate_ref(sc, val, [0], {})
    assert abs(z[0, 0] - 2.0) < 1e-9, z


def validate_json():
    code = r'''
import json, sys, glob, jsonschema
man = json.load(open("%(v)s/MANIFEST.json"))
jsonschema.validate(man, json.load(open("/root/.vp/MANIFEST.schema.json")))
props = [json.loads(l)["id"] for l in open("%(v)s/properties.jsonl")]
claimed = [c["property_id"] for c in man["checks"]]
na = [c["property_id"] for c in man.get("not_applicable", [])]
assert sorted(claimed + na) == sorted(props), (sorted(claimed + na), props)
es = json.load(open("/root/.vp/EVIDENCE.schema.json"))
bad = 0
for f in glob.glob("%(v)s/evidence/*.json"):
    try:
        jsonschema.validate(json.load(open(f)), es)
    except Exception as e:
        print("invalid evidence", f, str(e)[:200]); bad += 1
sys.exit(1 if bad else 0)
''' % {"v": VERIF}
    if not os.path.exists("/root/.vp/MANIFEST.schema.json"):
        return 0
    r = subprocess.run(["python3-vt", "-c", code], capture_output=True, text=True)
    if r.returncode != 0:
        print(r.stdout, r.stderr, file=sys.stderr)
    return r.returncode


def main():
    import torch  # noqa

    import cirkit  # noqa

    ref_sanity()
    for pid in json.load(open(os.path.join(VERIF, "MANIFEST.json")))["checks"]:
        __import__(f"checks.{pid['property_id'].lower()}")
    rc = validate_json()
    print("selftest", "ok" if rc == 0 else "FAILED")
    return rc
