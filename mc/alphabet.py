"""Bounded grammar of symbolic circuits (DESIGN 1.3). Everything here only produces CDL specs."""
from __future__ import annotations

import itertools
from itertools import permutations

# ---------------------------------------------------------------------------------- region trees
# Tree := int (leaf position) | ("P", [Tree, ...]) | ("M", [[Tree, ...], [Tree, ...]])


def tree_vars(t):
    if isinstance(t, int):
        return frozenset([t])
    if t[0] == "P":
        return frozenset().union(*[tree_vars(c) for c in t[1]])
    return frozenset().union(*[tree_vars(c) for c in t[1][0]])


def _set_partitions(vs, sizes=(2, 3)):
    """Partitions of the list vs into 2 or 3 non-empty blocks (unordered, blocks sorted)."""
    vs = list(vs)
    out = []
    n = len(vs)
    if n < 2:
        return out
    # 2 blocks
    first = vs[0]
    rest = vs[1:]
    if 2 in sizes:
        for r in range(0, len(rest)):
            for comb in itertools.combinations(rest, r):
                a = [first, *comb]
                b = [v for v in rest if v not in comb]
                if b:
                    out.append([a, b])
    if 3 in sizes and n >= 3:
        # assign each of rest to block 0,1,2 with blocks 1,2 non-empty, canonical (min of block1 < min of block2)
        for assign in itertools.product(range(3), repeat=len(rest)):
            blocks = [[first], [], []]
            for v, a in zip(rest, assign):
                blocks[a].append(v)
            if blocks[1] and blocks[2] and min(blocks[1]) < min(blocks[2]):
                out.append(blocks)
    return out


def single_trees(vs):
    """All trees over the variable positions vs using one partition per region."""
    vs = sorted(vs)
    if len(vs) == 1:
        return [vs[0]]
    out = []
    for part in _set_partitions(vs):
        for subs in itertools.product(*[single_trees(b) for b in part]):
            out.append(("P", list(subs)))
    return out


def mixed_trees(vs):
    """Trees whose root has two different partitionings (n-ary / mixing sum at the root)."""
    singles = single_trees(vs)
    out = []
    for a, b in itertools.combinations(singles, 2):
        out.append(("M", [a[1], b[1]]))
    return out


def dup_trees(vs):
    """Root with the *same* partition listed twice (arity-2 sum over two products that split the scope
    identically), the second time also with the sub-regions listed in reverse order."""
    out = []
    for t in single_trees(vs):
        if isinstance(t, int):
            continue
        out.append(("M", [t[1], t[1]]))
        out.append(("M", [t[1], list(reversed(t[1]))]))
    return out


def tree_name(t):
    if isinstance(t, int):
        return str(t)
    if t[0] == "P":
        return "(" + "*".join(tree_name(c) for c in t[1]) + ")"
    return "[" + "+".join("(" + "*".join(tree_name(c) for c in p) + ")" for p in t[1]) + "]"


NUMBERINGS = {
    "id": [0, 1, 2, 3],
    "gap": [0, 2, 5, 7],
    "h8": [1, 8, 3, 16],
    "h9": [9, 1, 10, 4],
    "h16": [16, 8, 0, 24],
}


def input_spec(kind: str, v: int, k: int, pos: int = 0) -> dict:
    """kind: emb | cat-logits | cat-probs | cat-softmax | cat-logsoftmax | bin-probs | bin-logits |
    bin-sigmoid | gau | gau-lp | poly0..poly3 ; categories vary with the position (2,3,2,...)"""
    n = 2 + (pos % 2)
    if kind == "emb":
        return {"t": "emb", "v": v, "k": k, "n": n}
    if kind.startswith("cat-"):
        return {"t": "cat", "v": v, "k": k, "n": n, "p": kind[4:]}
    if kind.startswith("bin-"):
        return {"t": "bin", "v": v, "k": k, "n": 1 + (pos % 2), "p": kind[4:]}
    if kind == "gau":
        return {"t": "gau", "v": v, "k": k, "lp": False}
    if kind == "gau-lp":
        return {"t": "gau", "v": v, "k": k, "lp": True}
    if kind.startswith("poly"):
        return {"t": "poly", "v": v, "k": k, "d": int(kind[4:])}
    raise ValueError(kind)


INPUT_KINDS_ALL = [
    "emb", "cat-logits", "cat-probs", "cat-softmax", "cat-logsoftmax", "bin-probs", "bin-logits",
    "bin-sigmoid", "gau", "gau-lp", "poly0", "poly1", "poly2", "poly3",
]
INPUT_KINDS_MONO = [k for k in INPUT_KINDS_ALL if not k.startswith("poly")]  # positive for positive params


class SpecBuilder:
    def __init__(self):
        self.layers = []

    def add(self, layer: dict) -> int:
        self.layers.append(layer)
        return len(self.layers) - 1


def make_spec(
    tree,
    numbering="id",
    inp="emb",
    prod="had",
    style="cpt",
    kin=2,
    ksum=2,
    kout=1,
    nary="dense",
    outputs="single",
    perm=None,
    share_leaves=True,
    sumw="dense",
    mixed_inputs=None,
    cplx=False,
):
    """Build a CDL circuit spec from a region tree and the per-circuit choices. Returns None when the
    combination is not constructible (e.g. plain Kronecker)."""
    ids = NUMBERINGS[numbering] if isinstance(numbering, str) else list(numbering)
    b = SpecBuilder()
    leaf_cache = {}
    if style == "plain" and (prod == "kro" or kin != ksum):
        return None

    def leaf(pos):
        if share_leaves and pos in leaf_cache:
            return leaf_cache[pos]
        kind = inp if mixed_inputs is None else mixed_inputs[pos % len(mixed_inputs)]
        i = b.add(input_spec(kind, ids[pos], kin, pos))
        if kin != ksum or style == "cp":
            i = b.add({"t": "sum", "in": [i], "k": ksum, "w": sumw})
        leaf_cache[pos] = i
        return i

    def product_of(children):
        ins = [region(c) for c in children]
        if perm is not None and len(ins) == len(perm):
            ins = [ins[j] for j in perm]
        elif perm is not None and len(ins) == 2 and len(perm) == 3:
            ins = ins[::-1] if list(perm) != [0, 1, 2] else ins
        p = b.add({"t": prod, "in": ins})
        if style == "plain":
            return p
        if style == "sumsum":
            s = b.add({"t": "sum", "in": [p], "k": ksum, "w": sumw})
            return b.add({"t": "sum", "in": [s], "k": ksum, "w": sumw})
        if style == "cp" and prod == "had":
            return p
        return b.add({"t": "sum", "in": [p], "k": ksum, "w": sumw})

    def region(t):
        if isinstance(t, int):
            return leaf(t)
        if t[0] == "P":
            return product_of(t[1])
        parts = [product_of(p) for p in t[1]]
        return b.add({"t": "sum", "in": parts, "k": ksum, "w": nary})

    root = region(tree)
    outs = [root]
    if isinstance(tree, int):
        # single-variable circuit: always put a sum on top so that there is at least one inner layer
        root = b.add({"t": "sum", "in": [root], "k": kout, "w": sumw})
        outs = [root]
    elif style != "plain":
        root2 = b.add({"t": "sum", "in": [root], "k": kout, "w": sumw})
        outs = [root2]
        if outputs == "two":
            r3 = b.add({"t": "sum", "in": [root], "k": kout, "w": sumw})
            outs = [root2, r3]
        elif outputs == "feeds":
            # root2 is an output and also feeds another output layer with the same unit count
            r3 = b.add({"t": "sum", "in": [root2], "k": kout, "w": sumw})
            outs = [root2, r3]
        elif outputs == "feeds-rev":
            r3 = b.add({"t": "sum", "in": [root2], "k": kout, "w": sumw})
            outs = [r3, root2]
        elif outputs == "sub":
            # outputs over different sub-scopes: the root and the layer of the first sub-region of the root
            first = region(tree[1][0] if tree[0] == "P" else tree[1][0][0])
            if b.layers[first].get("k", kin if b.layers[first]["t"] not in ("had", "kro", "sum") else None) is None:
                sub_units = ksum
            else:
                sub_units = b.layers[first].get("k")
            if sub_units != kout:
                return None
            outs = [root2, first]
        elif outputs == "inner":
            # the region layer itself (ksum units) is an output together with a same-size sum over it
            if kout != ksum:
                return None
            outs = [root, root2]
    else:
        if outputs == "two":
            return None
        if outputs in ("feeds", "feeds-rev", "inner", "sub"):
            return None
    spec = {"layers": b.layers, "outputs": outs}
    if cplx:
        spec["complex"] = True
    return spec


def trees_upto(nmax, mixed=True):
    out = []
    for n in range(1, nmax + 1):
        vs = list(range(n))
        out.extend(single_trees(vs))
        if mixed and n >= 3:
            out.extend(mixed_trees(vs))
        if mixed and n >= 2:
            out.extend(dup_trees(vs))
    return out


REPRESENTATIVE_TREES = [
    ("P", [("P", [0, 1]), 2]),  # chain
    ("P", [0, 1, 2]),  # ternary
    ("M", [[("P", [0, 1]), 2], [("P", [0, 2]), 1]]),  # two-partition DAG
]


def spec_features(spec) -> dict:
    ts = [l["t"] for l in spec["layers"]]
    return {
        "n_layers": len(ts),
        "has_kro": "kro" in ts,
        "has_had": "had" in ts,
        "nary_sum": any(l["t"] == "sum" and len(l["in"]) > 1 for l in spec["layers"]),
        "n_out": len(spec["outputs"]),
    }
