"""Numpy reference semantics of cirkit's *symbolic* objects.

Boring on purpose: one definition per symbolic parameter node / layer, written from the docstrings,
never importing cirkit.backend.  A valuation is a dict {TensorParameter -> ndarray}.
"""
from __future__ import annotations

import math
from itertools import product as iproduct

import numpy as np

from cirkit.symbolic import layers as L
from cirkit.symbolic import parameters as P
from cirkit.symbolic.circuit import Circuit


class RefError(Exception):
    pass


# ------------------------------------------------------------------------------ parameter nodes


def const_value(node: P.ConstantParameter) -> np.ndarray:
    v = node.value
    if isinstance(v, np.ndarray):
        return np.broadcast_to(v, node.shape).astype(np.complex128 if np.iscomplexobj(v) else np.float64)
    return np.full(node.shape, v, dtype=np.complex128 if isinstance(v, complex) else np.float64)


def leaf_value(node, val) -> np.ndarray:
    if isinstance(node, P.ReferenceParameter):
        return leaf_value(node.deref(), val)
    if node in val:
        return np.asarray(val[node])
    if isinstance(node, P.ConstantParameter):
        return const_value(node)
    init = getattr(node, "initializer", None)
    from cirkit.symbolic.initializers import ConstantTensorInitializer

    if isinstance(init, ConstantTensorInitializer):
        v = init.value
        if isinstance(v, np.ndarray):
            return np.broadcast_to(v, node.shape).astype(np.complex128 if np.iscomplexobj(v) else np.float64)
        return np.full(node.shape, v, dtype=np.complex128 if isinstance(v, complex) else np.float64)
    raise RefError(f"no value for tensor parameter {node!r}")


def _softmax(x, axis):
    m = np.max(x.real, axis=axis, keepdims=True)
    e = np.exp(x - m)
    return e / e.sum(axis=axis, keepdims=True)


def _lse(x, axis):
    m = np.max(x.real, axis=axis, keepdims=True)
    return np.log(np.exp(x - m).sum(axis=axis)) + np.squeeze(m, axis=axis)


def _outer(a, b, axis, op):
    # result[..., i*nb + j, ...] = op(a[..., i, ...], b[..., j, ...])
    a = np.moveaxis(a, axis, -1)
    b = np.moveaxis(b, axis, -1)
    r = op(a[..., :, None], b[..., None, :])
    r = r.reshape(*r.shape[:-2], -1)
    return np.moveaxis(r, -1, axis)


def apply_pnode(node, ins):
    t = type(node)
    if t is P.IndexParameter:
        return np.take(ins[0], node.indices, axis=node.axis)
    if t is P.SumParameter:
        return ins[0] + ins[1]
    if t is P.HadamardParameter:
        return ins[0] * ins[1]
    if t is P.KroneckerParameter:
        return np.kron(ins[0], ins[1])
    if t is P.OuterProductParameter:
        return _outer(ins[0], ins[1], node.axis, np.multiply)
    if t is P.OuterSumParameter:
        return _outer(ins[0], ins[1], node.axis, np.add)
    if t is P.ExpParameter:
        return np.exp(ins[0])
    if t is P.LogParameter:
        x = ins[0]
        with np.errstate(divide="ignore", invalid="ignore"):
            return np.log(x.astype(np.complex128)) if (np.iscomplexobj(x) or np.any(x.real < 0)) else np.log(x)
    if t is P.SquareParameter:
        return ins[0] * ins[0]
    if t is P.SoftplusParameter:
        return np.log1p(np.exp(-np.abs(ins[0]))) + np.maximum(ins[0], 0)
    if t is P.SigmoidParameter:
        return 1.0 / (1.0 + np.exp(-ins[0]))
    if t is P.ScaledSigmoidParameter:
        return (1.0 / (1.0 + np.exp(-ins[0]))) * (node.vmax - node.vmin) + node.vmin
    if t is P.ClampParameter:
        x = ins[0]
        if node.vmin is not None:
            x = np.maximum(x, node.vmin)
        if node.vmax is not None:
            x = np.minimum(x, node.vmax)
        return x
    if t is P.ConjugateParameter:
        return np.conj(ins[0])
    if t is P.ReduceSumParameter:
        return ins[0].sum(axis=node.axis)
    if t is P.ReduceProductParameter:
        return ins[0].prod(axis=node.axis)
    if t is P.ReduceLSEParameter:
        return _lse(ins[0], node.axis)
    if t is P.SoftmaxParameter:
        return _softmax(ins[0], node.axis)
    if t is P.LogSoftmaxParameter:
        return ins[0] - np.expand_dims(_lse(ins[0], node.axis), node.axis)
    if t is P.MixingWeightParameter:
        v = ins[0]  # (K, H)
        k, h = v.shape
        return np.concatenate([np.diag(v[:, i]) for i in range(h)], axis=1)
    if t is P.GaussianProductMean:
        m1, s1, m2, s2 = ins
        v1, v2 = s1**2, s2**2
        r = (m1[:, None] * v2[None, :] + m2[None, :] * v1[:, None]) / (v1[:, None] + v2[None, :])
        return r.reshape(-1)
    if t is P.GaussianProductStddev:
        s1, s2 = ins
        v1, v2 = s1**2, s2**2
        r = np.sqrt(v1[:, None] * v2[None, :] / (v1[:, None] + v2[None, :]))
        return r.reshape(-1)
    if t is P.GaussianProductLogPartition:
        m1, s1, m2, s2 = ins
        v = (s1**2)[:, None] + (s2**2)[None, :]
        r = -0.5 * (np.log(2 * np.pi) + np.log(v) + (m1[:, None] - m2[None, :]) ** 2 / v)
        return r.reshape(-1)
    if t is P.PolynomialProduct:
        a, b = ins
        out = np.zeros((a.shape[0] * b.shape[0], a.shape[1] + b.shape[1] - 1), dtype=np.result_type(a, b))
        for i in range(a.shape[0]):
            for j in range(b.shape[0]):
                out[i * b.shape[0] + j] = np.convolve(a[i], b[j])
        return out
    if t is P.PolynomialDifferential:
        c = ins[0]
        if c.shape[1] <= node.order:
            return np.zeros((c.shape[0], 1), dtype=c.dtype)
        rows = [np.polynomial.polynomial.polyder(c[i], m=node.order) for i in range(c.shape[0])]
        return np.stack(rows)
    raise RefError(f"reference model has no definition for parameter node {t.__name__}")


def eval_param(param: P.Parameter, val) -> np.ndarray:
    cache = val.get("__cache__") if isinstance(val, dict) else None
    if cache is not None and id(param) in cache:
        return cache[id(param)][1]
    r = _eval_param(param, val)
    if cache is not None:
        cache[id(param)] = (param, r)
    return r


def with_cache(val) -> dict:
    """Copy of a valuation that memoises parameter-graph evaluations (drop it after any update)."""
    v = dict(val)
    v["__cache__"] = {}
    return v


def _eval_param(param: P.Parameter, val) -> np.ndarray:
    out = {}
    for n in param.topological_ordering():
        if isinstance(n, P.ParameterInput):
            out[n] = leaf_value(n, val)
        else:
            out[n] = apply_pnode(n, [out[i] for i in param.node_inputs(n)])
    r = out[param.output]
    if tuple(r.shape) != tuple(param.shape):
        raise RefError(f"reference shape {r.shape} != declared {param.shape} for {param.output!r}")
    return r


# ------------------------------------------------------------------------------ layers


def _comb(n, k):
    return math.comb(int(n), int(k)) if 0 <= k <= n else 0


def input_layer_value(sl, val, x) -> np.ndarray:
    """x: mapping var id -> value (only the variables of sl.scope are read)."""
    if isinstance(sl, L.EvidenceLayer):
        obs = eval_param(sl.observation, val)
        inner = sl.layer
        vs = sorted(inner.scope)
        return input_layer_value(inner, val, {v: obs[i] for i, v in enumerate(vs)})
    if isinstance(sl, L.ConstantValueLayer):
        v = eval_param(sl.value, val)
        return np.exp(v) if sl.log_space else v
    (var,) = tuple(sl.scope)
    xv = x[var]
    if isinstance(sl, L.EmbeddingLayer):
        return eval_param(sl.weight, val)[:, int(xv)]
    if isinstance(sl, L.CategoricalLayer):
        if sl.logits is not None:
            return np.exp(eval_param(sl.logits, val)[:, int(xv)])
        return eval_param(sl.probs, val)[:, int(xv)]
    if isinstance(sl, L.BinomialLayer):
        if sl.logits is not None:
            p = 1.0 / (1.0 + np.exp(-eval_param(sl.logits, val)))
        else:
            p = eval_param(sl.probs, val)
        n, k = sl.total_count, int(xv)
        return _comb(n, k) * p**k * (1 - p) ** (n - k)
    if isinstance(sl, L.GaussianLayer):
        m = eval_param(sl.mean, val)
        s = eval_param(sl.stddev, val)
        r = np.exp(-0.5 * ((xv - m) / s) ** 2) / (s * np.sqrt(2 * np.pi))
        if sl.log_partition is not None:
            r = r * np.exp(eval_param(sl.log_partition, val))
        return r
    if isinstance(sl, L.PolynomialLayer):
        c = eval_param(sl.coeff, val)
        return np.array([np.polynomial.polynomial.polyval(xv, c[i]) for i in range(c.shape[0])])
    raise RefError(f"reference model has no definition for input layer {type(sl).__name__}")


def eval_circuit(sc: Circuit, val, x, cache=None) -> list[np.ndarray]:
    """Value of every output layer of sc at the assignment x (mapping var -> value)."""
    out = {}
    for sl in sc.topological_ordering():
        ins = [out[i] for i in sc.layer_inputs(sl)]
        if isinstance(sl, L.InputLayer):
            r = np.asarray(input_layer_value(sl, val, x))
        elif isinstance(sl, L.HadamardLayer):
            r = ins[0]
            for y in ins[1:]:
                r = r * y
        elif isinstance(sl, L.KroneckerLayer):
            r = ins[0]
            for y in ins[1:]:
                r = np.kron(r, y)
        elif isinstance(sl, L.SumLayer):
            w = eval_param(sl.weight, val)
            r = w @ np.concatenate(ins)
        else:
            raise RefError(f"no reference for layer {type(sl).__name__}")
        if r.shape != (sl.num_output_units,):
            raise RefError(f"layer {type(sl).__name__} reference shape {r.shape} vs K={sl.num_output_units}")
        out[sl] = r
    return [out[o] for o in sc.outputs]


def eval_circuit_table(sc: Circuit, val, rows) -> np.ndarray:
    """rows: list of dict var->value. Returns complex array (B, O, K)."""
    res = [np.stack(eval_circuit(sc, val, x)) for x in rows]
    return np.stack(res).astype(np.complex128)


# ------------------------------------------------------------------------------ domains


def var_domains(sc: Circuit) -> dict[int, tuple]:
    """Per variable: ("disc", n_states) or ("cont",). Inferred from the input layers."""
    dom: dict[int, tuple] = {}
    for sl in sc.input_layers:
        if not sl.scope:
            continue
        (v,) = tuple(sl.scope)
        if isinstance(sl, L.EmbeddingLayer):
            d = ("disc", sl.num_states)
        elif isinstance(sl, L.CategoricalLayer):
            d = ("disc", sl.num_categories)
        elif isinstance(sl, L.BinomialLayer):
            d = ("disc", sl.total_count + 1)
        elif isinstance(sl, (L.GaussianLayer, L.PolynomialLayer)):
            d = ("cont",)
        else:
            raise RefError(f"unknown domain of {type(sl).__name__}")
        if v in dom and dom[v] != d:
            raise RefError(f"variable {v} has inconsistent domains {dom[v]} / {d}")
        dom[v] = d
    return dom


CONT_GRID = (-1.3, -0.4, 0.0, 0.7, 1.9)


def assignments(dom: dict[int, tuple], variables=None, cont_grid=CONT_GRID, max_rows=None):
    vs = sorted(dom if variables is None else variables)
    axes = []
    for v in vs:
        d = dom[v]
        axes.append(list(range(d[1])) if d[0] == "disc" else list(cont_grid))
    rows = [dict(zip(vs, t)) for t in iproduct(*axes)]
    if max_rows is not None and len(rows) > max_rows:
        step = len(rows) / max_rows
        rows = [rows[int(i * step)] for i in range(max_rows)]
    return rows


_GL = {}


def gauss_legendre(n=120, lo=-14.0, hi=14.0):
    """Composite Gauss-Legendre rule with about n nodes: n // 8 panels with 8 nodes each."""
    key = (n, lo, hi)
    if key not in _GL:
        panels = max(1, n // 8)
        t, w = np.polynomial.legendre.leggauss(8)
        edges = np.linspace(lo, hi, panels + 1)
        xs, ws = [], []
        for a, b in zip(edges[:-1], edges[1:]):
            xs.append(0.5 * (b - a) * t + 0.5 * (b + a))
            ws.append(0.5 * (b - a) * w)
        _GL[key] = (np.concatenate(xs), np.concatenate(ws))
    return _GL[key]


def gauss_legendre_2d():
    """Rule used per axis when TWO continuous variables are integrated numerically (the grid is its square): 7 panels
    of width 1 on [-3.5, 3.5], where every Gaussian of the alphabet (|mean| <= 1.5, 0.3 <= stddev <= 1.4, also after
    squaring / cubing) is narrowest, two panels of width 3 and two of width 4 out to +-10.5; 88 nodes, error < 1e-8 on
    every such Gaussian (the uniform 72-node rule used before reached only 1.5e-6, which produced false alarms at the
    1e-6 tolerance for one valuation seed)."""
    key = ("2d",)
    if key not in _GL:
        t, w = np.polynomial.legendre.leggauss(8)
        edges = np.concatenate([[-10.5, -6.5], np.linspace(-3.5, 3.5, 8), [6.5, 10.5]])
        xs, ws = [], []
        for a, b in zip(edges[:-1], edges[1:]):
            xs.append(0.5 * (b - a) * t + 0.5 * (b + a))
            ws.append(0.5 * (b - a) * w)
        _GL[key] = (np.concatenate(xs), np.concatenate(ws))
    return _GL[key]


def integrate_ref(sc: Circuit, val, zvars, y: dict, dom=None, gl_nodes=120) -> np.ndarray:
    """Brute-force sum / quadrature of the reference function of sc over the variables zvars at the
    assignment y of the others. Returns (O, K) complex."""
    dom = dom or var_domains(sc)
    zvars = sorted(zvars)
    axes, weights = [], []
    for v in zvars:
        d = dom[v]
        if d[0] == "disc":
            axes.append(list(range(d[1])))
            weights.append([1.0] * d[1])
        else:
            t, w = gauss_legendre(gl_nodes, -10.5, 10.5)
            axes.append(list(t))
            weights.append(list(w))
    total = None
    for idx in iproduct(*[range(len(a)) for a in axes]):
        x = dict(y)
        w = 1.0
        for j, v in enumerate(zvars):
            x[v] = axes[j][idx[j]]
            w *= weights[j][idx[j]]
        r = np.stack(eval_circuit(sc, val, x)).astype(np.complex128) * w
        total = r if total is None else total + r
    return total
