"""Run one operator pipeline under every (semiring, fold, optimize) configuration and compare the
compiled target circuits with their definitional oracle."""
from __future__ import annotations

import traceback

import numpy as np

from mc import cdl, ref
from mc.harness import FLAGS, BindingViolation, Compiled, close, maxdiff
from mc.oracle import Pipeline
from mc.util import exc_sig, is_refusal


def pipeline_features(spec):
    ts = [l["t"] for c in spec["circuits"] for l in c["layers"]]
    return {
        "inp": sorted({t for t in ts if t not in ("had", "kro", "sum")}),
        "prod": sorted({t for t in ts if t in ("had", "kro")}),
        "ops": [o["op"] for o in spec.get("ops", [])],
    }


def feat_sig(spec):
    f = pipeline_features(spec)
    return {"inp": "+".join(f["inp"]), "prod": "+".join(f["prod"]), "ops": ">".join(f["ops"])}


def check_pipeline(
    spec,
    targets,
    vk="generic",
    seed=0,
    semirings=None,
    flags=FLAGS,
    max_rows=24,
    rtol=1e-9,
    quad_rtol=1e-6,
    registry=False,
    cross_flags=False,
    allow_symbolic_refusal=True,
    allow_compile_refusal=False,
    cont_grid=None,
    any_symbolic_error_is_refusal=False,
):
    """Returns dict(status, violations, counters, refusal?)."""
    fs = feat_sig(spec)
    try:
        pipe = Pipeline(spec)
    except Exception as e:
        if allow_symbolic_refusal and (is_refusal(e) or (any_symbolic_error_is_refusal and "/repo/cirkit/" in "".join(traceback.format_tb(e.__traceback__)))):
            return {"status": "refused", "refusal": f"{type(e).__name__}@{exc_sig(e)['where']}", "violations": [], "counters": {}}
        return {
            "status": "violation",
            "violations": [{"sig": {"kind": "exception-symbolic", **exc_sig(e), **fs}, "detail": traceback.format_exc()[-1500:]}],
            "counters": {},
        }
    val = cdl.valuation(pipe.roles, vk, seed)
    cval = ref.with_cache(val)
    aval = ref.with_cache({k: np.abs(v) for k, v in val.items()})
    dom = pipe.domains()
    has_cont_int = any(
        o["op"] == "integrate" and any(dom[v][0] == "cont" for v in (o.get("scope") or pipe.scope(o["args"][0])))
        for o in pipe.ops
    )
    tol = quad_rtol if has_cont_int else rtol
    has_poly = "poly" in fs["inp"]
    grid = cont_grid or ((0.0, 0.4, 1.1, 1.9) if (has_poly and vk == "monotone") else ref.CONT_GRID)
    nvars = cdl.max_var(pipe.circuits) + 1
    expected, scales, rows_of = {}, {}, {}
    for t in targets:
        sc_vars = pipe.scope(t)
        rows = ref.assignments({v: dom[v] for v in sc_vars}, cont_grid=grid, max_rows=max_rows) if sc_vars else [{}]
        rows_of[t] = rows
        expected[t] = np.stack([pipe.value(t, cval, r) for r in rows])
        arows = [{v: (abs(a) if isinstance(a, float) else a) for v, a in r.items()} for r in rows]
        if has_cont_int or "differentiate" in fs["ops"]:
            scales[t] = np.abs(expected[t])
        else:
            scales[t] = np.abs(np.stack([_abs_value(pipe, t, aval, r) for r in arows]))
    cplx_vals = any(np.iscomplexobj(v) for v in val.values())
    if semirings is None:
        if cplx_vals:
            semirings = ["complex-lse-sum"]
        else:
            semirings = ["sum-product", "complex-lse-sum"]
            pos = vk == "monotone" and "differentiate" not in fs["ops"] and all(np.all(e.real > 0) and np.all(np.abs(e.imag) < 1e-14) for e in expected.values())
            if pos:
                semirings.append("lse-sum")
    viols = []
    counters = {"configs": 0, "compared": 0, "compile_refusals": 0}
    per_flag = {}
    for semiring in semirings:
        for fold, optimize in flags:
            cfg = {"semiring": semiring, "fold": fold, "optimize": optimize}
            try:
                cc = Compiled(pipe.circuits, semiring, fold, optimize, compile_only=targets)
                cc.bind(val)
                if registry:
                    cc.check_registry([pipe.circuits[t] for t in targets])
            except BindingViolation as e:
                viols.append({"sig": {"kind": "registry", **cfg, **fs}, "detail": str(e), "cfg": cfg})
                continue
            except Exception as e:
                if allow_compile_refusal and is_refusal(e):
                    counters["compile_refusals"] += 1
                    continue
                viols.append({"sig": {"kind": "exception-compile", **exc_sig(e), **cfg, **fs}, "detail": traceback.format_exc()[-1500:], "cfg": cfg})
                continue
            counters["configs"] += 1
            for t in targets:
                sc = pipe.circuits[t]
                try:
                    got = cc.evaluate(sc, rows_of[t], nvars)
                except Exception as e:
                    viols.append({"sig": {"kind": "exception-eval", **exc_sig(e), **cfg, **fs}, "detail": traceback.format_exc()[-1500:], "cfg": cfg, "target": t})
                    continue
                exp = expected[t]
                if got.shape != exp.shape:
                    viols.append({"sig": {"kind": "shape", **cfg, **fs}, "detail": f"target {t}: shape {got.shape} expected {exp.shape}", "cfg": cfg, "target": t})
                    continue
                counters["compared"] += got.shape[0]
                per_flag[(semiring, fold, optimize, t)] = got
                if not close(got, exp, scales[t], rtol=tol):
                    bad = np.argwhere(~(np.abs(got - exp) <= tol * np.maximum(np.abs(scales[t]), np.abs(exp)) + 1e-12))
                    b0 = tuple(bad[0]) if len(bad) else (0, 0, 0)
                    viols.append({
                        "sig": {"kind": "mismatch", **cfg, **fs},
                        "detail": f"target {t} op={pipe.op_of(t)} max|diff|={maxdiff(got, exp):.3e} at {b0}: got={got[b0]} exp={exp[b0]} row={rows_of[t][b0[0]]}",
                        "cfg": cfg, "target": t,
                    })
    if cross_flags:
        for semiring in semirings:
            for t in targets:
                base = per_flag.get((semiring, False, False, t))
                if base is None:
                    continue
                for fold, optimize in flags[1:]:
                    g = per_flag.get((semiring, fold, optimize, t))
                    if g is None:
                        continue
                    if not close(g, base, scales[t], rtol=1e-10):
                        viols.append({"sig": {"kind": "flag-divergence", "semiring": semiring, "fold": fold, "optimize": optimize, **fs},
                                      "detail": f"target {t}: differs from unfolded/unoptimized by {maxdiff(g, base):.3e}", "target": t})
    return {"status": "violation" if viols else "ok", "violations": viols, "counters": counters, "pipe": pipe,
            "rows": sum(len(r) for r in rows_of.values()), "semirings": semirings}


def _abs_value(pipe, t, aval, r):
    return pipe.value(t, aval, r)


_SR = {"sum-product": "sp", "lse-sum": "lse", "complex-lse-sum": "clse"}


def collapse(viols, total_configs=None):
    """One violation per class: merge the (semiring, fold, optimize) dimension into a 'configs' field."""
    groups = {}
    for v in viols:
        sig = dict(v["sig"])
        cfg = (sig.pop("semiring", None), sig.pop("fold", None), sig.pop("optimize", None))
        key = tuple(sorted((k, str(x)) for k, x in sig.items()))
        g = groups.setdefault(key, {"sig": sig, "cfgs": [], "first": v})
        g["cfgs"].append(cfg)
    out = []
    for g in groups.values():
        cfgs = sorted({c for c in g["cfgs"] if c != (None, None, None)}, key=str)
        sig = dict(g["sig"])
        if cfgs:
            folds = {c[1] for c in cfgs}
            opts = {c[2] for c in cfgs}
            srs = {c[0] for c in cfgs}
            sig["fold"] = "any" if folds == {True, False} else (next(iter(folds)) if len(folds) == 1 else "any")
            sig["optimize"] = "any" if opts == {True, False} else (next(iter(opts)) if len(opts) == 1 else "any")
            sig["semirings"] = "+".join(sorted(_SR.get(s, str(s)) for s in srs))
        v = dict(g["first"])
        v["sig"] = sig
        v["detail"] = f"[{len(cfgs)} configs] " + str(v.get("detail", ""))
        out.append(v)
    return out
