"""Pools of circuit specs shared by the operator checks (C02-C07, C09, C10, C13, C19)."""
from __future__ import annotations

import itertools

from mc import alphabet as A


def subsets(vs, nonempty=True):
    vs = list(vs)
    for r in range(1 if nonempty else 0, len(vs) + 1):
        for c in itertools.combinations(vs, r):
            yield list(c)


def var_ids(tree, numbering):
    ids = A.NUMBERINGS[numbering]
    return sorted(ids[p] for p in A.tree_vars(tree))


def structure_pool(tier, max_vars=3, mixed=True):
    """(tree, prod, style, nary) combinations."""
    trees = A.trees_upto(max_vars, mixed=mixed)
    if tier == "quick" and mixed and max_vars >= 3:
        # quick: every single-partition tree, two two-partition DAGs, the duplicated partitions of 2 variables and two of 3
        trees = A.trees_upto(max_vars, mixed=False) + A.mixed_trees([0, 1, 2])[:2] + A.dup_trees([0, 1]) + A.dup_trees([0, 1, 2])[:2]
    combos = [("had", "cpt"), ("had", "cp"), ("had", "plain"), ("kro", "cpt")]
    if tier == "thorough":
        combos += [("had", "sumsum"), ("kro", "sumsum")]
    for tree in trees:
        for prod, style in combos:
            narys = ["dense", "mixing"] if (not isinstance(tree, int) and tree[0] == "M") else ["dense"]
            for nary in narys:
                yield tree, prod, style, nary


def tt(t):
    """JSON round trip turns tuples into lists: normalise a tree back."""
    if isinstance(t, int):
        return t
    tag, body = t[0], t[1]
    if tag == "P":
        return ("P", [tt(c) for c in body])
    return ("M", [[tt(c) for c in part] for part in body])


def spec_from(c):
    """Build a CDL circuit spec from the 'circuit' part of a case dict."""
    return A.make_spec(
        tt(c["tree"]), numbering=c.get("numbering", "id"), inp=c.get("inp", "emb"), prod=c.get("prod", "had"),
        style=c.get("style", "cpt"), kin=c.get("kin", 2), ksum=c.get("ksum", 2), kout=c.get("kout", 1),
        nary=c.get("nary", "dense"), outputs=c.get("outputs", "single"), perm=c.get("perm"),
        sumw=c.get("sumw", "dense"), mixed_inputs=c.get("mixed"), cplx=c.get("cplx", False),
        share_leaves=c.get("share_leaves", True),
    )
