"""Exhaustive enumeration of small symbolic circuit *structures* (valid and invalid), for C08/C09.

A structure is a JSON list of layers: ["in", [vars...]] | ["sum", [idx...]] | ["prod", [idx...]].
All layers have one unit; outputs are the sink layers (1 or 2 of them)."""
from __future__ import annotations

import itertools

from cirkit.symbolic import layers as L
from cirkit.symbolic import parameters as P
from cirkit.symbolic.circuit import Circuit
from cirkit.utils.scope import Scope

SCOPE_MENU = [[], [0], [1], [2], [0, 1], [1, 2]]


def build(struct, rename=None, perm_products=None, kind="emb", with_params=False) -> Circuit:
    """rename: dict var->var; perm_products: 'rev' reverses every product's input list, or a dict
    layer idx -> permutation."""
    rename = rename or {}
    layers, in_layers = [], {}
    for i, (t, arg) in enumerate(struct):
        if t == "in":
            vs = [rename.get(v, v) for v in arg]
            if len(vs) == 0:
                sl = L.ConstantValueLayer(1, value=P.Parameter.from_input(P.ConstantParameter(1, value=1.0)))
            elif len(vs) == 1:
                if kind == "emb":
                    sl = L.EmbeddingLayer(Scope(vs), 1, num_states=2)
                elif kind == "poly":
                    sl = L.PolynomialLayer(Scope(vs), 1, degree=1)
                else:
                    sl = L.CategoricalLayer(Scope(vs), 1, num_categories=2)
            else:
                sl = L.BinomialLayer(Scope(vs), 1, total_count=1)
            layers.append(sl)
            continue
        ins = list(arg)
        if t == "prod":
            if perm_products == "rev":
                ins = ins[::-1]
            elif isinstance(perm_products, dict) and i in perm_products:
                ins = [ins[j] for j in perm_products[i]]
            sl = L.HadamardLayer(1, arity=len(ins))
        else:
            sl = L.SumLayer(1, 1, arity=len(ins))
        layers.append(sl)
        in_layers[sl] = [layers[j] for j in ins]
    used = {j for (t, arg) in struct if t != "in" for j in arg}
    outputs = [layers[i] for i in range(len(struct)) if i not in used]
    return Circuit(layers, in_layers, outputs)


def scopes_of(struct, rename=None):
    rename = rename or {}
    sc = []
    for t, arg in struct:
        if t == "in":
            sc.append(frozenset(rename.get(v, v) for v in arg))
        else:
            sc.append(frozenset().union(*[sc[j] for j in arg]))
    return sc


def sinks(struct):
    used = {j for (t, arg) in struct if t != "in" for j in arg}
    return [i for i in range(len(struct)) if i not in used]


# ------------------------------------------------------------------ independent definitions


def ref_properties(struct):
    sc = scopes_of(struct)
    smooth = all(len({sc[j] for j in arg}) == 1 for (t, arg) in struct if t == "sum")
    decomposable = all(
        not (sc[a] & sc[b]) for (t, arg) in struct if t == "prod" for a, b in itertools.combinations(arg, 2)
    )
    return smooth, decomposable


def factorizations(struct, rename=None):
    """scope -> set of frozenset(non-empty sub-scopes), over all products with >= 2 non-empty inputs."""
    sc = scopes_of(struct, rename)
    out = {}
    for i, (t, arg) in enumerate(struct):
        if t != "prod":
            continue
        subs = [sc[j] for j in arg if sc[j]]
        if len(subs) > 1:
            out.setdefault(sc[i], set()).add(frozenset(subs))
    return out


def same_split(f1, f2=None):
    """True iff all products over the same scope (in f1 and f2 together) split it the same way."""
    merged = {}
    for f in (f1, f2 or {}):
        for s, fs in f.items():
            merged.setdefault(s, set()).update(fs)
    return all(len(fs) == 1 for fs in merged.values())


# ------------------------------------------------------------------ enumeration


def prefixes(max_inputs, menu=SCOPE_MENU):
    """Non-decreasing sequences of input scopes (by menu index)."""
    for m in range(1, max_inputs + 1):
        for combo in itertools.combinations_with_replacement(range(len(menu)), m):
            yield [menu[i] for i in combo]


def completions(prefix, n_layers, max_sinks=2, max_arity=3):
    """All ways to add inner layers after the input prefix up to n_layers in total such that the final
    structure has <= max_sinks sinks and every layer is a sink or consumed."""
    m = len(prefix)
    base = [["in", list(s)] for s in prefix]

    def rec(struct):
        k = len(struct)
        s = sinks(struct)
        if k > m and len(s) <= max_sinks:
            yield struct
        elif k == m == 1:
            yield struct
        if k >= n_layers:
            return
        # the remaining layers must be able to absorb the sinks
        for arity in range(1, max_arity + 1):
            for ins in itertools.combinations(range(k), arity):
                for t in ("sum", "prod"):
                    if t == "prod" and arity < 2:
                        continue
                    new = struct + [[t, list(ins)]]
                    remaining = n_layers - (k + 1)
                    if len(sinks(new)) - max_sinks > remaining * (max_arity - 1):
                        continue
                    yield from rec(new)

    yield from rec(base)
