"""E3: stateless choice-point exploration of the torch random stream used by sampling.

Every scalar draw of torch.distributions.{Categorical,Binomial}.sample is intercepted and treated as an
environment choice. `explore(run)` enumerates ALL choice vectors depth-first (odometer order), each
execution weighted by the product of the probabilities of the alternatives taken, so the sampler's exact
output distribution is obtained without statistics."""
from __future__ import annotations

import math
from contextlib import contextmanager

import torch
from torch import distributions as D


class Divergence(Exception):
    """Replaying a prefix met a different choice point than recorded: nondeterminism the explorer does not own."""


class Chooser:
    def __init__(self):
        self.prefix = []
        self.points = []  # (n_alternatives with non-zero probability, alternatives, probs)
        self.choices = []
        self.weight = 1.0
        self.expect = None

    def start(self, prefix, expect=None):
        self.prefix = list(prefix)
        self.points = []
        self.choices = []
        self.weight = 1.0
        self.expect = expect

    def choose(self, probs):
        alts = [i for i, p in enumerate(probs) if p > 0.0]
        i = len(self.choices)
        if self.expect is not None and i < len(self.expect) and self.expect[i] != len(alts):
            raise Divergence(f"choice point {i}: {len(alts)} alternatives, recorded {self.expect[i]}")
        c = self.prefix[i] if i < len(self.prefix) else 0
        if c >= len(alts):
            raise Divergence(f"choice point {i}: alternative {c} out of range {len(alts)}")
        self.points.append(len(alts))
        self.choices.append(c)
        self.weight *= float(probs[alts[c]])
        return alts[c]


CHOOSER = Chooser()


def _cat_sample(self, sample_shape=torch.Size()):
    shape = tuple(sample_shape) + tuple(self._batch_shape)
    probs = self.probs.detach().double().reshape(-1, self.probs.shape[-1])
    nb = probs.shape[0]
    n = int(math.prod(shape)) if shape else 1
    out = torch.empty(n, dtype=torch.int64)
    for j in range(n):
        b = j % nb  # the batch index varies fastest within each sample
        out[j] = CHOOSER.choose(probs[b].tolist())
    return out.reshape(shape)


def _bin_sample(self, sample_shape=torch.Size()):
    shape = tuple(sample_shape) + tuple(self._batch_shape)
    p = self.probs.detach().double().reshape(-1)
    tc = self.total_count.detach().reshape(-1) if torch.is_tensor(self.total_count) else torch.tensor([self.total_count] * p.numel())
    nb = p.numel()
    n = int(math.prod(shape)) if shape else 1
    out = torch.empty(n, dtype=self.probs.dtype)
    for j in range(n):
        b = j % nb
        m = int(tc[b % tc.numel()])
        pmf = [math.comb(m, k) * float(p[b]) ** k * (1 - float(p[b])) ** (m - k) for k in range(m + 1)]
        out[j] = CHOOSER.choose(pmf)
    return out.reshape(shape)


@contextmanager
def intercepted():
    oc, ob = D.Categorical.sample, D.Binomial.sample
    D.Categorical.sample, D.Binomial.sample = _cat_sample, _bin_sample
    try:
        yield
    finally:
        D.Categorical.sample, D.Binomial.sample = oc, ob


def explore(run, max_executions=None):
    """run() -> observation (hashable). Returns (dict observation -> weight, executions, points, total_weight).
    Enumerates all choice vectors; raises Divergence on nondeterminism."""
    dist = {}
    executions = 0
    prefix = []
    expect = None
    max_points = 0
    with intercepted():
        while True:
            CHOOSER.start(prefix, expect)
            obs = run()
            executions += 1
            pts, ch, w = list(CHOOSER.points), list(CHOOSER.choices), CHOOSER.weight
            max_points = max(max_points, len(pts))
            dist[obs] = dist.get(obs, 0.0) + w
            # next vector in odometer order
            i = len(ch) - 1
            while i >= 0 and ch[i] + 1 >= pts[i]:
                i -= 1
            if i < 0:
                break
            prefix = ch[:i] + [ch[i] + 1]
            expect = pts[: i + 1]
            if max_executions is not None and executions >= max_executions:
                return dist, executions, max_points, sum(dist.values()), True
    return dist, executions, max_points, sum(dist.values()), False
