"""Circuit description language: JSON-serialisable specs <-> real cirkit.symbolic objects.

A circuit spec is {"layers": [layer, ...], "outputs": [idx, ...]}; a layer refers to earlier layers by
index.  Every learnable tensor created here is recorded with a *role* so that valuations can give it
admissible values (positive stddev, probabilities in (0,1), ...).

Layer specs (t = type):
  emb   {t, v, k, n}                       EmbeddingLayer over variable v, k units, n states
  cat   {t, v, k, n, p}                    p in {logits, probs, softmax, logsoftmax}
  bin   {t, v, k, n, p}                    total_count n, p in {logits, probs, sigmoid}
  gau   {t, v, k, lp}                      lp: with log_partition parameter
  poly  {t, v, k, d}                       degree d
  const {t, k, log}                        ConstantValueLayer
  had / kro {t, in:[...]}                  product layers
  sum   {t, in:[...], k, w}                w in {dense, mixing, softmax, mixing-softmax, exp}
Optional on any parameterised layer: "share": idx  -> parameters are references to layer idx's.
"""
from __future__ import annotations

import functools

import numpy as np

from cirkit.symbolic import functional as SF
from cirkit.symbolic import layers as L
from cirkit.symbolic import parameters as P
from cirkit.symbolic.circuit import Circuit
from cirkit.symbolic.dtypes import DataType
from cirkit.symbolic.initializers import NormalInitializer
from cirkit.utils.scope import Scope


class Roles(dict):
    """TensorParameter -> role, in creation order."""


_FROZEN = [False]  # set by build_layer while a layer marked "frozen" is being built


def _tp(roles: Roles, shape, role, dtype=DataType.REAL) -> P.TensorParameter:
    t = P.TensorParameter(*shape, initializer=NormalInitializer(), dtype=dtype, learnable=not _FROZEN[0])
    roles[t] = role
    return t


def _param(roles, shape, role, wrap=None, dtype=DataType.REAL) -> P.Parameter:
    t = _tp(roles, shape, role, dtype)
    if wrap is None:
        return P.Parameter.from_input(t)
    return P.Parameter.from_unary(wrap, t)


def build_layer(spec: dict, built: list, roles: Roles, cplx: bool = False):
    _FROZEN[0] = bool(spec.get("frozen"))
    try:
        return _build_layer(spec, built, roles, cplx)
    finally:
        _FROZEN[0] = False


def _build_layer(spec: dict, built: list, roles: Roles, cplx: bool = False):
    t = spec["t"]
    wdt = DataType.COMPLEX if cplx else DataType.REAL
    share = spec.get("share")
    if share is not None:
        return built[share].copyref()
    if t == "emb":
        k, n = spec["k"], spec["n"]
        return L.EmbeddingLayer(Scope([spec["v"]]), k, num_states=n, weight=_param(roles, (k, n), "emb", dtype=wdt))
    if t == "cat":
        k, n, p = spec["k"], spec["n"], spec.get("p", "logits")
        sc = Scope([spec["v"]])
        if p == "logits":
            return L.CategoricalLayer(sc, k, num_categories=n, logits=_param(roles, (k, n), "logits"))
        if p == "logsoftmax":
            return L.CategoricalLayer(
                sc, k, num_categories=n, logits=_param(roles, (k, n), "free", P.LogSoftmaxParameter((k, n)))
            )
        if p == "probs":
            return L.CategoricalLayer(sc, k, num_categories=n, probs=_param(roles, (k, n), "probs"))
        if p == "softmax":
            return L.CategoricalLayer(
                sc, k, num_categories=n, probs=_param(roles, (k, n), "free", P.SoftmaxParameter((k, n)))
            )
        raise ValueError(p)
    if t == "bin":
        k, n, p = spec["k"], spec["n"], spec.get("p", "probs")
        sc = Scope([spec["v"]])
        if p == "logits":
            return L.BinomialLayer(sc, k, total_count=n, logits=_param(roles, (k,), "logits"))
        if p == "probs":
            return L.BinomialLayer(sc, k, total_count=n, probs=_param(roles, (k,), "bprobs"))
        if p == "sigmoid":
            return L.BinomialLayer(
                sc, k, total_count=n, probs=_param(roles, (k,), "free", P.SigmoidParameter((k,)))
            )
        raise ValueError(p)
    if t == "gau":
        k = spec["k"]
        lp = _param(roles, (k,), "logpart") if spec.get("lp") else None
        return L.GaussianLayer(
            Scope([spec["v"]]),
            k,
            mean=_param(roles, (k,), "mean"),
            stddev=_param(roles, (k,), "stddev"),
            log_partition=lp,
        )
    if t == "poly":
        k, d = spec["k"], spec["d"]
        return L.PolynomialLayer(Scope([spec["v"]]), k, degree=d, coeff=_param(roles, (k, d + 1), "coeff", dtype=wdt))
    if t == "const":
        k = spec["k"]
        log = bool(spec.get("log"))
        return L.ConstantValueLayer(k, log_space=log, value=_param(roles, (k,), "logvalue" if log else "value"))
    if t in ("had", "kro"):
        ins = [built[i] for i in spec["in"]]
        cls = L.HadamardLayer if t == "had" else L.KroneckerLayer
        return cls(ins[0].num_output_units, arity=len(ins))
    if t == "sum":
        ins = [built[i] for i in spec["in"]]
        ki, ko, h = ins[0].num_output_units, spec["k"], len(ins)
        w = spec.get("w", "dense")
        shape = (ko, ki * h)
        if w == "dense":
            weight = _param(roles, shape, "w", dtype=wdt)
        elif w == "softmax":
            weight = _param(roles, shape, "free", P.SoftmaxParameter(shape, axis=1))
        elif w == "exp":
            weight = _param(roles, shape, "free", P.ExpParameter(shape))
        elif w == "mixing":
            weight = P.mixing_weight_factory(shape, param_factory=lambda s: _param(roles, s, "w", dtype=wdt))
        elif w == "mixing-softmax":
            weight = P.mixing_weight_factory(
                shape, param_factory=lambda s: _param(roles, s, "free", P.SoftmaxParameter(s, axis=1))
            )
        else:
            raise ValueError(w)
        return L.SumLayer(ki, ko, arity=h, weight=weight)
    raise ValueError(f"unknown layer type {t}")


def build_circuit(spec: dict, roles: Roles | None = None) -> tuple[Circuit, Roles]:
    roles = Roles() if roles is None else roles
    built: list = []
    in_layers = {}
    cplx = bool(spec.get("complex"))
    n_sums = 0
    for ls in spec["layers"]:
        if ls.get("t") == "sum" and ls.get("w") in ("alt", "alt2"):
            # sibling sum layers with structurally different weight graphs: softmax(tensor) and a plain tensor alternate
            first = "softmax" if ls["w"] == "alt" else "dense"
            second = "dense" if ls["w"] == "alt" else "softmax"
            ls = dict(ls, w=first if n_sums % 2 == 0 else second)
            n_sums += 1
        sl = build_layer(ls, built, roles, cplx)
        built.append(sl)
        if "in" in ls:
            in_layers[sl] = [built[i] for i in ls["in"]]
    order = spec.get("order")
    layers = built if order is None else [built[i] for i in order]
    outputs = [built[i] for i in spec["outputs"]]
    return Circuit(layers, in_layers, outputs), roles


# --------------------------------------------------------------------------------- pipelines


def _scope(xs):
    return Scope(xs)


def apply_op(op: dict, circuits: list[Circuit]) -> Circuit:
    o = op["op"]
    a = [circuits[i] for i in op["args"]]
    if o == "integrate":
        sc = op.get("scope")
        return SF.integrate(a[0], scope=None if sc is None else Scope(sc))
    if o == "multiply":
        return SF.multiply(a[0], a[1])
    if o == "differentiate":
        return SF.differentiate(a[0], order=op.get("order", 1))
    if o == "conjugate":
        return SF.conjugate(a[0])
    if o == "evidence":
        obs = {int(k): v for k, v in op["obs"].items()}
        return SF.evidence(a[0], obs)
    if o == "concatenate":
        return SF.concatenate(a)
    raise ValueError(o)


def build_pipeline(spec: dict) -> tuple[list[Circuit], Roles]:
    """spec = {"circuits": [circuit spec...], "ops": [op...]}; op results are appended to the list."""
    roles = Roles()
    circuits = []
    for cs in spec["circuits"]:
        c, _ = build_circuit(cs, roles)
        circuits.append(c)
    for op in spec.get("ops", []):
        circuits.append(apply_op(op, circuits))
    return circuits, roles


# --------------------------------------------------------------------------------- valuations

_RANGES = {
    # role: (lo, hi, signed)
    "w": (0.3, 1.6, True),
    "emb": (0.2, 1.5, True),
    "value": (0.3, 1.4, True),
    "coeff": (0.2, 1.3, True),
    "logits": (-1.5, 1.5, False),
    "free": (-1.5, 1.5, False),
    "logvalue": (-1.0, 1.0, False),
    "logpart": (-0.6, 0.6, False),
    "mean": (-1.0, 1.0, False),
    "stddev": (0.6, 1.4, False),
    "bprobs": (0.15, 0.85, False),
    "probs": (0.1, 1.0, False),
}


def valuation(roles: Roles, kind: str = "generic", seed: int = 0) -> dict:
    """kind: generic (mixed signs) | monotone (non-negative) | complex | zeros (mixed signs, one exact zero
    per weight tensor) | mzeros (non-negative with one exact zero per weight tensor)."""
    val = {}
    for i, (t, role) in enumerate(roles.items()):
        rng = np.random.default_rng([seed, i, 7919])
        lo, hi, signed = _RANGES[role]
        a = rng.uniform(lo, hi, size=t.shape)
        if signed and kind in ("generic", "zeros", "complex"):
            sgn = np.where(rng.uniform(size=t.shape) < 0.4, -1.0, 1.0)
            a = a * sgn
        if role == "probs":
            a = a / a.sum(axis=-1, keepdims=True)
        if kind in ("zeros", "mzeros") and role in ("w", "emb") and a.size > 1:
            flat = a.reshape(-1)
            flat[int(rng.integers(flat.size))] = 0.0
        if kind in ("zeros", "mzeros") and role == "probs" and a.shape[-1] > 1:
            a[..., 0, 0] = 0.0
            a = a / a.sum(axis=-1, keepdims=True)
        if kind == "complex" and t.dtype == DataType.COMPLEX:
            b = rng.uniform(-1.0, 1.0, size=t.shape)
            a = a + 1j * b
        elif t.dtype == DataType.COMPLEX:
            a = a.astype(np.complex128)
        val[t] = a
    return val


def max_var(circuits) -> int:
    m = -1
    for c in circuits:
        if c.scope:
            m = max(m, max(c.scope))
    return m
