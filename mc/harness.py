"""Compile symbolic circuits with the real TorchCompiler, bind valuations through the compiler's own
symbolic->compiled registry, evaluate, and compare with the reference."""
from __future__ import annotations

import numpy as np
import torch

from cirkit.backend.torch.compiler import TorchCompiler
from cirkit.backend.torch.parameters.nodes import TorchTensorParameter
from cirkit.symbolic import parameters as P
from cirkit.symbolic.circuit import Circuit, StructuralPropertyError
from cirkit.symbolic.registry import OperatorSignatureNotFound

torch.set_default_dtype(torch.float64)
torch.set_num_threads(1)

SEMIRINGS = ("sum-product", "lse-sum", "complex-lse-sum")
FLAGS = ((False, False), (True, False), (False, True), (True, True))  # (fold, optimize)

REFUSALS = (StructuralPropertyError, ValueError, NotImplementedError, OperatorSignatureNotFound)


class HarnessError(Exception):
    """The harness itself (not the library) is inconsistent."""


class BindingViolation(Exception):
    """The symbolic->compiled registry is not a well-formed map (C02 clause)."""


def circuit_tensor_params(sc: Circuit) -> list:
    """All TensorParameter leaves (incl. constants, dereferenced references) of a symbolic circuit,
    in deterministic order, without duplicates."""
    seen, out = set(), []

    def visit_layer(sl):
        for p in sl.params.values():
            for n in p.nodes:
                if isinstance(n, P.ReferenceParameter):
                    n = n.deref()
                if isinstance(n, P.TensorParameter) and id(n) not in seen:
                    seen.add(id(n))
                    out.append(n)
        inner = getattr(sl, "layer", None)
        if inner is not None and hasattr(inner, "params"):
            visit_layer(inner)

    for sl in sc.layers:
        visit_layer(sl)
    return out


class Compiled:
    def __init__(self, circuits, semiring="sum-product", fold=False, optimize=False, compile_only=None):
        self.semiring = semiring
        self.fold = fold
        self.optimize = optimize
        self.compiler = TorchCompiler(semiring=semiring, fold=fold, optimize=optimize)
        self.circuits = list(circuits)
        self.compiled = {}
        targets = self.circuits if compile_only is None else [self.circuits[i] for i in compile_only]
        for sc in targets:
            self.compiled[id(sc)] = self.compiler.compile(sc)

    def cc(self, sc):
        if id(sc) not in self.compiled:
            self.compiled[id(sc)] = self.compiler.compile(sc)
        return self.compiled[id(sc)]

    # ------------------------------------------------------------------ binding
    def slot(self, t: P.TensorParameter):
        tp, idx = self.compiler.state.retrieve_compiled_parameter(t)
        if not isinstance(tp, TorchTensorParameter):
            raise BindingViolation(f"registry maps {t!r} to a {type(tp).__name__}")
        if tp._ptensor is None:
            raise BindingViolation("compiled tensor parameter not materialised after compilation")
        if not (0 <= idx < tp.num_folds) or tuple(tp._ptensor.shape) != (tp.num_folds, *t.shape):
            raise BindingViolation(
                f"slice {idx} of compiled tensor {tuple(tp._ptensor.shape)} cannot hold symbolic shape {t.shape}"
            )
        return tp, idx

    def bind(self, val: dict):
        with torch.no_grad():
            for t, a in val.items():
                if not isinstance(t, P.TensorParameter):
                    continue
                if not self.compiler.state.has_compiled_parameter(t):
                    continue
                tp, idx = self.slot(t)
                a = np.asarray(a)
                src = torch.from_numpy(np.ascontiguousarray(a))
                if tp._ptensor.is_complex():
                    src = src.to(tp._ptensor.dtype)
                elif src.is_complex():
                    raise HarnessError("complex value for a real tensor")
                else:
                    src = src.to(tp._ptensor.dtype)
                tp._ptensor.data[idx].copy_(src)

    def read(self, t: P.TensorParameter) -> np.ndarray:
        tp, idx = self.slot(t)
        return tp._ptensor.data[idx].detach().cpu().numpy().copy()

    def check_registry(self, scs=None):
        """Every learnable symbolic tensor <-> exactly one slice of exactly one compiled tensor;
        together the slices cover every learnable compiled tensor of the compiled circuits."""
        scs = self.circuits if scs is None else scs
        used = {}
        for sc in scs:
            for t in circuit_tensor_params(sc):
                if not self.compiler.state.has_compiled_parameter(t):
                    raise BindingViolation(f"symbolic tensor {t!r} has no compiled counterpart")
                tp, idx = self.slot(t)
                key = (id(tp), idx)
                if key in used and used[key] is not t:
                    raise BindingViolation("two symbolic tensors share one compiled slice")
                used[key] = t
        reach = {}
        for sc in scs:
            if id(sc) not in self.compiled:
                continue
            for m in self.compiled[id(sc)].modules():
                if isinstance(m, TorchTensorParameter):
                    reach[id(m)] = m
        for tp in reach.values():
            for i in range(tp.num_folds):
                if (id(tp), i) not in used:
                    raise BindingViolation(
                        f"slice {i} of a compiled tensor {tuple(tp._ptensor.shape)} belongs to no symbolic tensor"
                    )
        return len(used)

    # ------------------------------------------------------------------ evaluation
    def to_linear(self, y: torch.Tensor) -> np.ndarray:
        if self.semiring == "sum-product":
            return y.detach().numpy().astype(np.complex128)
        return torch.exp(y.detach().to(torch.complex128)).numpy()

    def batch_tensor(self, rows, nvars, dtype=None):
        """rows: list of dict var->value -> tensor (B, nvars); unspecified columns are 0."""
        cont = any(isinstance(v, float) for r in rows for v in r.values())
        x = np.zeros((len(rows), nvars), dtype=np.float64 if cont else np.int64)
        for i, r in enumerate(rows):
            for v, a in r.items():
                x[i, v] = a
        return torch.from_numpy(x)

    def evaluate_raw(self, sc, rows, nvars=None):
        cc = self.cc(sc)
        if not sc.scope:
            y = cc()
            return y.unsqueeze(0)  # (1, O, K)
        if nvars is None:
            nvars = max(sc.scope) + 1
        return cc(self.batch_tensor(rows, nvars))

    def evaluate(self, sc, rows, nvars=None) -> np.ndarray:
        """Linear-space complex array (B, O, K) (B = 1 for empty scope)."""
        return self.to_linear(self.evaluate_raw(sc, rows, nvars))


def bind_compiler(compiler, val: dict):
    """Write a valuation into whatever slices the given compiler has registered for its tensors."""
    with torch.no_grad():
        for t, a in val.items():
            if not isinstance(t, P.TensorParameter) or not compiler.state.has_compiled_parameter(t):
                continue
            tp, idx = compiler.state.retrieve_compiled_parameter(t)
            src = torch.from_numpy(np.ascontiguousarray(np.asarray(a))).to(tp._ptensor.dtype)
            tp._ptensor.data[idx].copy_(src)


def close(a, b, scale=None, rtol=1e-9, atol=1e-12):
    a = np.asarray(a)
    b = np.asarray(b)
    if a.shape != b.shape:
        return False
    if not (np.all(np.isfinite(a)) and np.all(np.isfinite(b))):
        return bool(np.array_equal(np.isfinite(a), np.isfinite(b)) and np.allclose(a[np.isfinite(a)], b[np.isfinite(b)], rtol=rtol, atol=atol))
    s = np.maximum(np.abs(a), np.abs(b)) if scale is None else np.maximum(np.abs(scale), np.maximum(np.abs(a), np.abs(b)))
    return bool(np.all(np.abs(a - b) <= rtol * s + atol))


def maxdiff(a, b):
    a = np.asarray(a)
    b = np.asarray(b)
    if a.shape != b.shape:
        return float("inf")
    with np.errstate(invalid="ignore"):
        d = np.abs(a - b)
    return float(np.nanmax(d)) if d.size else 0.0


def abs_valuation(val):
    return {k: (np.abs(v) if not isinstance(k, str) else v) for k, v in val.items() if not isinstance(k, str)}
