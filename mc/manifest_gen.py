"""Regenerates /verif/MANIFEST.json from the table below (run: /venv/bin/python -m mc.manifest_gen)."""
import json
import os

VERIF = os.path.dirname(os.path.dirname(os.path.abspath(__file__)))

E1 = "bounded-exhaustive enumeration (explicit product space) of programs x configurations x inputs on the real code vs numpy reference model"
E2 = "explicit-state breadth-first search over call histories replayed on the real objects, invariant checked in every state against a lockstep reference model"
E3 = "stateless choice-point exploration (DFS over every random draw of the sampler) giving the exact output distribution"

CHECKS = {
    "C01": dict(level="exploration", engine="E1", tech=E1, design="3/C01",
                text="every circuit of a bounded grammar (<=3 variables, <=3 units, Hadamard/Kronecker, 4 sum placements, n-ary sums, 4 output variants, 5 numberings, 14 input kinds) under 3 semirings x 4 flag combinations is evaluated on its complete input table in several batch presentations and compared with an independent numpy reference; complete enumeration of the declared space, no sampling of programs/configurations/inputs",
                note="trusted: the symbolic data structures as carrier of the denotation, the numpy reference (self-tested), generic-point argument for real parameters"),
}

NA_DEFAULT = "check under construction in this session (claimed once its driver is committed)"


def main():
    props = [json.loads(l) for l in open(os.path.join(VERIF, "properties.jsonl"))]
    checks, na = [], []
    for p in props:
        pid = p["id"]
        c = CHECKS.get(pid)
        if c is None or not os.path.exists(os.path.join(VERIF, "checks", f"{pid.lower()}.py")):
            na.append({"property_id": pid, "reason": NA_DEFAULT})
            continue
        checks.append({
            "property_id": pid,
            "quick_cmd": f"/venv/bin/python /verif/run_check.py {pid} --tier quick",
            "thorough_cmd": f"/venv/bin/python /verif/run_check.py {pid} --tier thorough",
            "evidence_file": f"/verif/evidence/{pid}.json",
            "replay_cmd_template": "/venv/bin/python /verif/run_check.py --replay {path}",
            "engine": c["engine"],
            "level_claimed": {"category": c["level"], "text": c["text"], "design_ref": f"DESIGN.md section {c['design']}"},
            "level_note": c["note"],
            "technique": c["tech"],
        })
    served = {"E1": [], "E2": [], "E3": []}
    for pid, c in CHECKS.items():
        if any(k["property_id"] == pid for k in checks):
            served[c["engine"]].append(pid)
    man = {
        "version": 1,
        "setup_cmd": "/venv/bin/python /verif/run_check.py --selftest",
        "hooks": {
            "guard": "CIRKIT_VERIF",
            "enable": "no source hooks are needed: every observation point is reachable from outside (compiler registry, context variables, monkey-patching inside the harness process)",
            "baseline_off_cmd": "cd /repo && /venv/bin/python -m pytest -ra -q -p no:cacheprovider --timeout=900 --continue-on-collection-errors",
            "source_commits": [],
            "add_only": True,
        },
        "engines": [
            {"name": "E1", "path": "/verif/mc/engine.py", "serves_properties": served["E1"], "kind_free_text": E1},
            {"name": "E2", "path": "/verif/mc/bfs.py", "serves_properties": served["E2"], "kind_free_text": E2},
            {"name": "E3", "path": "/verif/mc/choice.py", "serves_properties": served["E3"], "kind_free_text": E3},
        ],
        "checks": checks,
        "notes": "All checks: /venv/bin/python /verif/run_check.py <id> --tier quick|thorough ; exit 0 held, 1 violation (VIOLATION line), 2 harness error. VERIF_SEED selects the generic valuation only; the enumerated space never depends on it. See DESIGN.md.",
        "not_applicable": na,
    }
    with open(os.path.join(VERIF, "MANIFEST.json"), "w") as f:
        json.dump(man, f, indent=1)
    print(f"claimed={len(checks)} not_applicable={len(na)}")


if __name__ == "__main__":
    main()
