"""Regenerates /verif/MANIFEST.json from the table below (run: /venv/bin/python -m mc.manifest_gen)."""
import json
import os

VERIF = os.path.dirname(os.path.dirname(os.path.abspath(__file__)))

E1 = "bounded-exhaustive enumeration (explicit product space) of programs x configurations x inputs on the real code vs numpy reference model"
E2 = "explicit-state breadth-first search over call histories replayed on the real objects, invariant checked in every state against a lockstep reference model"
E3 = "stateless choice-point exploration (DFS over every random draw of the sampler) giving the exact output distribution"

CHECKS = {
    "C01": dict(level="exploration", engine="E1", tech=E1, design="3/C01",
                text="every circuit of a bounded grammar (<=3 variables, <=3 units, Hadamard/Kronecker, 4 sum placements, n-ary sums, 4 output variants, 5 numberings, 14 input kinds) under 3 semirings x 4 flag combinations is evaluated on its complete input table in several batch presentations and compared with an independent numpy reference; complete enumeration of the declared space, no sampling of programs/configurations/inputs",
                note="trusted: the symbolic data structures as carrier of the denotation, the numpy reference (self-tested), generic-point argument for real parameters"),

    "C02": dict(level="exploration", engine="E1", tech=E1, design="3/C02",
                text="every circuit / operator pipeline of the bounded alphabet is compiled with four fresh compilers (fold x optimize) per semiring, the same symbolic values bound through the compiler registry, and compared on the complete input table pairwise (1e-10) and with a definitional oracle; the registry is checked to be a bijection between symbolic tensors and compiled slices; the run fails if some rewrite (Tucker, CP-T, tensordot, sum collapse, log-softmax, einsum) or fold group never occurred",
                note="trusted: numpy reference and definitional oracles; generic-point argument for parameter values"),
    "C03": dict(level="exploration", engine="E1", tech=E1, design="3/C03",
                text="for every circuit of the alphabet with integrable inputs and EVERY non-empty subset Z of its scope (and every ordered pair of disjoint subsets) the compiled integral circuit is compared at every remaining assignment with a brute-force sum / Gauss-Legendre quadrature of the operand's reference function, under all semirings x flags",
                note="continuous variables: quadrature, 1e-6 relative; at most 2 continuous variables integrated numerically"),
    "C04": dict(level="exploration", engine="E1", tech=E1, design="3/C04",
                text="all ordered pairs / squares / chains of circuits of the alphabet (independent units, input kinds, sum arity, mixing, Hadamard/Kronecker, every product-input permutation, conditioned operands) are multiplied; a returned circuit must equal the outer product of the operands' reference functions in Kronecker unit order on every input under all semirings x flags; a raise is counted as refusal by exception type",
                note="any exception raised by multiply counts as 'raises an error' (property wording); refusal counts are in the evidence"),
    "C05": dict(level="exploration", engine="E1", tech=E1, design="3/C05",
                text="polynomial-input circuits over 1..4 variables under every numbering (incl. ids >= 8, gaps, non-monotone) x degree x order: outputs of the compiled differential circuit compared, in increasing-variable-id order, with exact interpolation + analytic differentiation of the operand's reference function",
                note="interpolation degree assumption is itself verified at two fresh points per case"),
    "C06": dict(level="exploration", engine="E1", tech=E1, design="3/C06",
                text="every non-empty observation subset x every observed value of the domain x every remaining assignment for every circuit of the alphabet (plus evidence followed by integrate/square/evidence) compared with substitution into the operand's reference; every operand list of length 1..3 for concatenate compared with stacking",
                note="continuous observed values from a 3-point grid"),
    "C07": dict(level="exploration", engine="E1", tech=E1, design="3/C07",
                text="complex and real valuations of every circuit of the alphabet, as base circuits and as results of multiply/integrate/evidence: conjugate(c), conjugate(conjugate(c)) and integrate(conjugate(c)) compared with numpy conj of the definitional oracle under all admissible semirings x flags",
                note="complex parameters only in the complex-lse-sum semiring; missing conjugation rules are counted refusals"),
    "C08": dict(level="exploration", engine="E1", tech=E1, design="3/C08",
                text="ALL symbolic circuit structures with <= 5 (thorough 6) layers over 3 variables (valid and invalid, empty and multivariate input scopes) all ordered pairs of structures with <= 4 layers, and every smooth+decomposable but not structured-decomposable structure with <= 6 layers paired with that whole pool: flags compared with set-based definitions, soundness of structured-decomposability / compatibility, symmetry, invariance under product-input permutation and 4 variable renamings",
                note="one unit per layer; omni-compatibility is not part of the property and not checked"),
    "C09": dict(level="exploration", engine="E1", tech=E1, design="3/C09",
                text="the same exhaustive population fed to every operator with every argument (all subsets of {0..3} as integration scope / observation, orders -1..2, all ordered pairs for multiply) and to the query constructors: documented exception and no circuit on invalid input; recomputed structural post-conditions on every returned circuit",
                note="predicates used on results are validated independently by C08"),

    "C10": dict(level="model_checking", engine="E2", tech=E2, design="3/C10",
                text="for 8-12 operator pipelines x 5-7 (semiring, fold, optimize) configurations: BFS over all histories (depth 2 quick / 3 thorough) of in-place updates, SGD steps through a derived circuit, resets, state-dict loads and derived-circuit resets; every history replayed on freshly compiled real objects; in every state (evaluated with and without autograd; a subset of configurations with all circuits in eval mode) each derived circuit must equal its definitional oracle at the parameter values read back from the operand and own no learnable tensor",
                note="deterministic events; oracle = numpy reference of the operand + operator definition"),
    "C11": dict(level="exploration", engine="E1", tech=E1, design="3/C11",
                text="compiled circuits of the alphabet with exp-family inputs x 8 configurations x ALL mask matrices for batch sizes 1..3 (tensor format), all single scopes, all per-sample scope lists for B=2, probability tables with exact zeros with every row of the domain as placeholder, plus every rejection case; per sample compared with a brute-force sum / quadrature of the reference over exactly the masked variables",
                note="Gaussian circuits with <= 2 variables; masks set True only in scope columns"),
    "C12": dict(level="exploration", engine="E1", tech=E1 + "; plus " + E2 + " for the training-history clause", design="3/C12",
                text="every template (region graphs of all algorithms incl. the two smallest with side-by-side mixing layers x cp/cp-t/tucker x input layer x units x classes x mixing/dense, image_data, tabular_data, hmm, fully_factorized, cp, tucker with softmax parameterisations) compiled under 8 configurations; generic and extreme (+-30) values of the unconstrained tensors; Z by brute force over the complete domain (quadrature / symbolic integrate where stated) must be 1 per output unit, values >= 0, log-space values finite; BFS over {SGD step, reset, +-30 update} histories on representatives",
                note="256-state image defaults use the compiled integrate circuit (validated by C03)"),
    "C13": dict(level="exploration", engine="E1", tech=E1, design="3/C13",
                text="circuits of the alphabet x valuation kinds incl. exact zeros x 3 semirings x 4 flags: autograd gradients mapped back to symbolic tensors compared across flags (1e-9), with central finite differences of the numpy reference (1e-5), likewise for continuous inputs, and across semirings (1e-8 relative, also on a valuation with sum weights ~1e-7); finiteness per (row, output unit) on the zero valuations",
                note="finite differences decide correctness only to 1e-5; three known findings at exact zeros are listed in known_findings.json"),
    "C14": dict(level="exploration", engine="E1", tech=E1, design="3/C14",
                text="every parameter node type x every input shape of rank 1..3 over dims {1,2,3} x every axis (positive and negative) x fold count 1..3 through the compiler's own parameter folding, all 2-node compositions and the operator chains, optimize rewrites for every (outer axis, reduce axis): declared shape == compiled shape == computed shape and every fold slice equals the numpy definition",
                note="uses TorchCompiler.compile_parameter and the compiler's parameter folding function directly"),
    "C15": dict(level="exploration", engine="E3", tech=E3, design="3/C15",
                text="ALL random streams of the sampler on normalised circuits (1..3 variables, Hadamard/Kronecker, arity-1 / dense n-ary / mixing sums, categorical and binomial inputs) x 4 flags x N in {1,2}: every scalar draw is a choice point, every choice vector executed, executions weighted by their probability; the exact output distribution must equal the circuit's distribution (1e-11), with full support and shape (N, |scope|); for N = 1 the exploration is repeated on the same circuit and query after an in-place update of every parameter",
                note="continuous inputs are outside the enumerable alphabet; executions per configuration reported in the evidence"),
    "C16": dict(level="exploration", engine="E1", tech=E1, design="3/C16",
                text="every argument combination of the seven construction algorithms within the stated ranges, tree2rg on every rooted labelled tree with <= 4 (thorough 5) nodes in three array forms, Chow-Liu on synthetic data sets: root / partition validity, flag vs set-based definition, dump/load round trip, and 60 build modes (3 abstractions + explicit Hadamard/Kronecker factories x units x classes) with structural post-conditions",
                note="documented 'Cannot build' refusals for unequal units are counted, not demanded"),
    "C17": dict(level="model_checking", engine="E2", tech=E2, design="3/C17",
                text="2710 (initialiser, shape, learnable, fold grouping, fold flag) configurations x BFS over compile (reset|update)^{<=2..3}: in every state after compile/reset each symbolic tensor's slice (read through the registry) must satisfy its own initialiser's constraints (exact constants, Dirichlet sums along the declared axis, bounds, moments on 64x64 tensors), dtype and requires_grad; resets redraw / restore",
                note="moment clause is statistical (6 sigma, fixed seeds)"),
    "C18": dict(level="model_checking", engine="E2", tech=E2, design="3/C18",
                text="explicit-state BFS over all histories up to depth 5 (thorough 7) of 13 context / compile / operator events (incl. compiling a chain-shaped and a DAG-shaped derived circuit before their operands) for 4 (thorough 8) pairs of context flag sets, one search shard per first event; each transition executes the real API inside contextvars.copy_context(); a reference model (context stack, per-context compiled maps, compile log) is stepped in lockstep; invariant in every state: active context and operator registry, memoisation, bijection, isolation, compile-once and operands-first, operator results equal to compiling the symbolic operator",
                note="re-entrancy of an active context object excluded by the property; _compile_circuit is counted by monkey-patching in the harness process"),
    "C19": dict(level="model_checking", engine="E2", tech=E2, design="3/C19",
                text="BFS over save / update / reset / load-into-fresh-instance histories (depth 3, thorough 5) for operator pipelines x 4 configurations, also on partially frozen models and with the fresh instance in eval mode and evaluated before the load: after every load (strict=True) the freshly compiled operand and every derived circuit reproduce the recorded outputs (1e-12); in every state the learnable state-dict entries, nn.Parameters and compiled storage of learnable symbolic tensors are in bijection",
                note="fresh instances are compiled from the same symbolic objects with a new compiler and a different RNG seed"),
    "C20": dict(level="exploration", engine="E1", tech=E1, design="3/C20",
                text="cp / tucker / tensor_train on all small shapes x ranks x input layers: value at EVERY index tuple vs np.einsum of the read-back factor tensors; hmm on every ordering with pairwise different per-variable arguments and fully_factorized: explicit latent-chain summation and per-variable layer arguments; logic circuits: all formulas of depth <= 2 (thorough 3) over <= 3 variables, directly and through generated SDD files, plus disjunctions nested under disjunctions, multi-element SDD decisions and DAGs with a shared conjunction: truth table and model count",
                note="constant formulas may refuse (no circuit over an empty scope)"),
}

NA_DEFAULT = "check under construction in this session (claimed once its driver is committed)"


def main():
    props = [json.loads(l) for l in open(os.path.join(VERIF, "properties.jsonl"))]
    checks, na = [], []
    for p in props:
        pid = p["id"]
        c = CHECKS.get(pid)
        if c is None or not os.path.exists(os.path.join(VERIF, "checks", f"{pid.lower()}.py")):
            na.append({"property_id": pid, "reason": NA_DEFAULT})
            continue
        checks.append({
            "property_id": pid,
            "quick_cmd": f"/venv/bin/python /verif/run_check.py {pid} --tier quick",
            "thorough_cmd": f"/venv/bin/python /verif/run_check.py {pid} --tier thorough",
            "evidence_file": f"/verif/evidence/{pid}.json",
            "replay_cmd_template": "/venv/bin/python /verif/run_check.py --replay {path}",
            "engine": c["engine"],
            "level_claimed": {"category": c["level"], "text": c["text"], "design_ref": f"DESIGN.md section {c['design']}"},
            "level_note": c["note"],
            "technique": c["tech"],
        })
    served = {"E1": [], "E2": [], "E3": []}
    for pid, c in CHECKS.items():
        if any(k["property_id"] == pid for k in checks):
            served[c["engine"]].append(pid)
    man = {
        "version": 1,
        "setup_cmd": "/venv/bin/python /verif/run_check.py --selftest",
        "hooks": {
            "guard": "CIRKIT_VERIF",
            "enable": "no source hooks are needed: every observation point is reachable from outside (compiler registry, context variables, monkey-patching inside the harness process)",
            "baseline_off_cmd": "cd /repo && /venv/bin/python -m pytest -ra -q -p no:cacheprovider --timeout=900 --continue-on-collection-errors",
            "source_commits": [],
            "add_only": True,
        },
        "engines": [
            {"name": "E1", "path": "/verif/mc/engine.py", "serves_properties": served["E1"], "kind_free_text": E1},
            {"name": "E2", "path": "/verif/mc/bfs.py", "serves_properties": served["E2"], "kind_free_text": E2},
            {"name": "E3", "path": "/verif/mc/choice.py", "serves_properties": served["E3"], "kind_free_text": E3},
        ],
        "checks": checks,
        "notes": "All checks: /venv/bin/python /verif/run_check.py <id> --tier quick|thorough ; exit 0 held, 1 violation (VIOLATION line), 2 harness error. VERIF_SEED selects the generic valuation only; the enumerated space never depends on it. See DESIGN.md.",
        "not_applicable": na,
    }
    with open(os.path.join(VERIF, "MANIFEST.json"), "w") as f:
        json.dump(man, f, indent=1)
    print(f"claimed={len(checks)} not_applicable={len(na)}")


if __name__ == "__main__":
    main()
