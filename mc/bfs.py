"""E2: explicit-state breadth-first search over call histories.

Live torch objects and context variables cannot be copied, so a state is identified with the event
history that reaches it and rebuilt by replaying the history on fresh real objects. The invariant is
evaluated in every reached state; states are de-duplicated on a canonical key."""
from __future__ import annotations

import contextvars
from collections import deque


class Result:
    def __init__(self):
        self.states = 0
        self.transitions = 0
        self.replays = 0
        self.max_depth = 0
        self.violations = []  # (history, message, sig)
        self.sample_histories = []
        self.events_used = set()
        self.outcomes = set()


def explore(initial, enabled, replay, max_depth, max_violations=5, isolate=True, prefix=None):
    """
    initial()               -> model state for the empty history (model only, cheap)
    enabled(model_state)    -> list of events (JSON-able) enabled in that model state
    replay(history)         -> (model_state, key, problems) ; replays the whole history on FRESH real
                               objects with the reference model in lockstep and evaluates the invariant
                               after every step; problems = list of (message, sig) found at the LAST step
    prefix                  -> optional history the search starts from (shards one search over several workers: the
                               union of the shards for every enabled first event is the full search; states reachable
                               through several first events are then counted once per shard)
    """
    res = Result()

    def run(hist):
        res.replays += 1
        if isolate:
            return contextvars.copy_context().run(replay, hist)
        return replay(hist)

    prefix = list(prefix or [])
    m0, k0, p0 = run(prefix)
    for msg, sig in p0:
        res.violations.append((prefix, msg, sig))
    seen = {k0}
    frontier = deque([(prefix, m0)] if (not p0 and len(prefix) < max_depth) else [])
    res.states = 1
    for ev in prefix:
        res.events_used.add(str(ev if not isinstance(ev, dict) else ev.get("e", ev)))
    res.max_depth = len(prefix)
    while frontier:
        hist, mstate = frontier.popleft()
        for ev in enabled(mstate):
            new_hist = hist + [ev]
            m, k, problems = run(new_hist)
            res.transitions += 1
            res.events_used.add(str(ev if not isinstance(ev, dict) else ev.get("e", ev)))
            res.max_depth = max(res.max_depth, len(new_hist))
            res.outcomes.add(k)
            for msg, sig in problems:
                if len(res.violations) < max_violations or all(v[2] != sig for v in res.violations):
                    res.violations.append((new_hist, msg, sig))
            if problems:
                continue  # do not explore beyond a violating state
            if k not in seen:
                seen.add(k)
                res.states += 1
                if len(res.sample_histories) < 3 and len(new_hist) >= 2:
                    res.sample_histories.append(new_hist)
                if len(new_hist) < max_depth:
                    frontier.append((new_hist, m))
    return res
