"""Exploration driver shared by all checks: enumerate cases, run them on a worker pool, aggregate
coverage, classify violations against known findings, write replay artefacts and evidence."""
from __future__ import annotations

import hashlib
import importlib
import json
import multiprocessing as mp
import os
import sys
import time
import traceback
from collections import Counter, defaultdict

VERIF = os.path.dirname(os.path.dirname(os.path.abspath(__file__)))
EVIDENCE_DIR = os.path.join(VERIF, "evidence")
REPLAY_DIR = os.path.join(VERIF, "replays")
KNOWN = os.path.join(VERIF, "known_findings.json")

MAX_REPORTED = 10


def canon(obj) -> str:
    return json.dumps(obj, sort_keys=True, separators=(",", ":"), default=str)


def load_check(pid: str):
    return importlib.import_module(f"checks.{pid.lower()}")


_CHECK = None


def _init_worker(pid, seed, tier):
    global _CHECK
    import torch

    torch.set_num_threads(1)
    torch.set_default_dtype(torch.float64)
    os.environ["VERIF_SEED"] = str(seed)
    os.environ["VERIF_TIER"] = tier
    _CHECK = load_check(pid)
    init = getattr(_CHECK, "worker_init", None)
    if init:
        init()


def _run_one(case):
    try:
        r = _CHECK.run_case(case)
    except Exception as e:
        tb = traceback.extract_tb(e.__traceback__)
        lib = [fr for fr in tb if "/repo/cirkit/" in fr.filename]
        if lib:
            # the library itself raised on an input of the check's alphabet and no oracle anticipated it: this never
            # happens on the unchanged tree, so it is reported as a violation (with the innermost library frame)
            where = lib[-1].filename.split("/repo/cirkit/")[1] + ":" + lib[-1].name
            return case, {"status": "violation", "nontrivial": False,
                          "violations": [{"sig": {"kind": "uncaught-library-exception", "exc": type(e).__name__, "where": where},
                                          "detail": traceback.format_exc()[-1500:], "case": case}]}
        # harness failure, not a property verdict
        return case, {"status": "harness_error", "detail": f"{type(e).__name__}: {e}\n{traceback.format_exc()}"}
    return case, r


def _run_chunk(cases):
    return [_run_one(c) for c in cases]


def _chunks(it, n):
    buf = []
    for x in it:
        buf.append(x)
        if len(buf) >= n:
            yield buf
            buf = []
    if buf:
        yield buf


def load_known(pid):
    if not os.path.exists(KNOWN):
        return []
    with open(KNOWN) as f:
        data = json.load(f)
    return [e for e in data.get("findings", []) if e.get("property") == pid and e.get("status") == "known"]


def matches_known(sig: dict, known: list):
    for e in known:
        m = e.get("match", {})
        if m and all(sig.get(k) == v for k, v in m.items()):
            return e
    return None


def run_check(pid: str, tier: str, seed: int, workers: int | None = None) -> int:
    t0 = time.time()
    check = load_check(pid)
    workers = workers or int(os.environ.get("VERIF_WORKERS", "16"))
    budget = float(os.environ.get("VERIF_BUDGET_S", "0") or 0) or getattr(check, "BUDGET_S", {}).get(tier, 0)
    chunk = getattr(check, "CHUNK", 8)

    evaluations = 0
    status_count = Counter()
    counters = Counter()
    dim_cov = defaultdict(Counter)
    outcomes = Counter()
    nontrivial_keys = set()
    nontrivial_extra = 0
    samples = []
    violations = {}  # sig-key -> (case, result)
    sig_counts = Counter()
    harness_errors = []
    capped = False
    states = transitions = traces = 0
    refusal_kinds = Counter()

    gen = check.cases(tier, seed)
    ctx = mp.get_context("fork")
    with ctx.Pool(workers, initializer=_init_worker, initargs=(pid, seed, tier)) as pool:
        for results in pool.imap_unordered(_run_chunk, _chunks(gen, chunk)):
            for case, r in results:
                evaluations += int(r.get("evaluations", 1))
                st = r["status"]
                status_count[st] += 1
                if st == "harness_error":
                    if len(harness_errors) < 5:
                        harness_errors.append((case, r["detail"]))
                    continue
                for k, v in r.get("counters", {}).items():
                    counters[k] += v
                for d, v in r.get("dims", {}).items():
                    dim_cov[d][str(v)] += 1
                if "outcome" in r:
                    outcomes[str(r["outcome"])] += 1
                states += r.get("states", 0)
                transitions += r.get("transitions", 0)
                traces += r.get("traces", 0)
                if st == "refused":
                    refusal_kinds[r.get("refusal", "?")] += 1
                nontrivial_extra += int(r.get("nontrivial_n", 0))
                if r.get("nontrivial"):
                    nontrivial_keys.add(hashlib.sha1(canon(case).encode()).hexdigest())
                if len(samples) < 3 and st == "ok" and r.get("nontrivial"):
                    samples.append({"case": case, "summary": r.get("summary", st)})
                if st == "violation":
                    for v in r.get("violations", [r]):
                        sig = v.get("sig", {"kind": "unclassified"})
                        key = canon(sig)
                        sig_counts[key] += 1
                        cur = violations.get(key)
                        size = len(canon(v.get("case", case)))
                        if cur is None or size < cur[2]:
                            violations[key] = (v.get("case", case), v, size, sig)
            if budget and time.time() - t0 > budget:
                capped = True
                pool.terminate()
                break

    # ---------------------------------------------------------------- classify violations
    known = load_known(pid)
    os.makedirs(REPLAY_DIR, exist_ok=True)
    new_violations = []
    known_hits = {}
    for key, (case, v, _, sig) in sorted(violations.items(), key=lambda kv: kv[1][2]):
        e = matches_known(sig, known)
        if e is not None:
            known_hits.setdefault(e["what"], (case, v))
            continue
        new_violations.append((case, v, sig))

    lines = []
    for what in known_hits:
        lines.append(f"KNOWN-FINDING: property={pid} {what}")
    exit_code = 0
    replay_paths = []
    for case, v, sig in new_violations[:MAX_REPORTED]:
        h = hashlib.sha1(canon([sig, case]).encode()).hexdigest()[:12]
        path = os.path.join(REPLAY_DIR, f"{pid}_{h}.json")
        with open(path, "w") as f:
            json.dump({"property": pid, "case": case, "sig": sig, "detail": v.get("detail", ""), "seed": seed, "tier": tier}, f, indent=1, default=str)
        replay_paths.append(path)
        lines.append(f"VIOLATION property={pid} replay={path}")
        exit_code = 1
    if harness_errors:
        exit_code = 2 if exit_code == 0 else exit_code

    # ---------------------------------------------------------------- vacuity self-checks
    agg = {
        "evaluations": evaluations,
        "status": dict(status_count),
        "counters": dict(counters),
        "dims": {k: dict(v) for k, v in dim_cov.items()},
        "outcomes": dict(outcomes),
        "capped": capped,
        "tier": tier,
    }
    vac = []
    fin = getattr(check, "finalize", None)
    if fin and not capped and exit_code == 0:
        vac = list(fin(agg) or [])
        if vac:
            exit_code = 2

    # ---------------------------------------------------------------- evidence
    level = getattr(check, "LEVEL", "exploration")
    if not samples:
        first = next(iter(check.cases(tier, seed)), None)
        samples = [{"case": first, "summary": "first enumerated case"}]
    coverage = {
        "evaluations": evaluations,
        "distinct_nontrivial": len(nontrivial_keys) + nontrivial_extra,
        "rule": getattr(check, "RULE", ""),
        "samples": samples,
        "exhaustive": (not capped) and not harness_errors,
        "status_counts": dict(status_count),
        "refusals": dict(refusal_kinds),
        "counters": dict(counters),
        "dimension_coverage": {k: dict(v) for k, v in dim_cov.items()},
        "distinct_outcomes": len(outcomes),
        "bounds": getattr(check, "BOUNDS", {}).get(tier, {}),
        "capped": capped,
        "known_findings_hit": sorted(known_hits),
        "violation_classes": len(violations),
        "workers": workers,
    }
    if level == "model_checking":
        coverage["states"] = states
        coverage["transitions"] = transitions
        coverage["traces_validated_against_impl"] = traces
    ev = {
        "property_id": pid,
        "tier": tier,
        "seed": seed,
        "level": level,
        "coverage": coverage,
        "assumptions": list(getattr(check, "ASSUMPTIONS", [])),
        "wall_s": round(time.time() - t0, 2),
        "violations": len(new_violations),
    }
    os.makedirs(EVIDENCE_DIR, exist_ok=True)
    with open(os.path.join(EVIDENCE_DIR, f"{pid}.json"), "w") as f:
        json.dump(ev, f, indent=1, default=str)

    # ---------------------------------------------------------------- report
    print(
        f"[{pid}] tier={tier} seed={seed} cases={sum(status_count.values())} evaluations={evaluations} "
        f"nontrivial={len(nontrivial_keys) + nontrivial_extra} status={dict(status_count)} outcomes={len(outcomes)} "
        f"wall={time.time() - t0:.1f}s capped={capped}"
    )
    if states:
        print(f"[{pid}] states={states} transitions={transitions} traces_validated={traces}")
    if counters:
        print(f"[{pid}] counters={dict(counters)}")
    for case, detail in harness_errors:
        print(f"[{pid}] HARNESS-ERROR case={canon(case)[:300]}\n{detail}", file=sys.stderr)
    for msg in vac:
        print(f"[{pid}] VACUITY: {msg}", file=sys.stderr)
    if os.environ.get("VERIF_VERBOSE"):
        for k, n in sorted(sig_counts.items(), key=lambda kv: -kv[1]):
            print(f"[{pid}] sigclass n={n} {k} e.g. {canon(violations[k][0])[:400]}")
    for case, v, sig in new_violations[:MAX_REPORTED]:
        print(f"[{pid}] violation sig={canon(sig)} detail={str(v.get('detail', ''))[:400]}")
    for ln in lines:
        print(ln)
    sys.stdout.flush()
    return exit_code


def replay(path: str) -> int:
    with open(path) as f:
        rep = json.load(f)
    pid = rep["property"]
    os.environ.setdefault("VERIF_SEED", str(rep.get("seed", 0)))
    _init_worker(pid, int(os.environ["VERIF_SEED"]), rep.get("tier", "quick"))
    case, r = _run_one(rep["case"])
    print(json.dumps({"status": r["status"], "sig": r.get("sig"), "detail": str(r.get("detail", ""))[:2000]}, indent=1, default=str))
    if r["status"] == "violation":
        print(f"VIOLATION property={pid} replay={path}")
        return 1
    if r["status"] == "harness_error":
        return 2
    return 0
