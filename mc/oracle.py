"""Definitional oracles for operator pipelines.

The value of a derived circuit is computed from the *definition of the operator* applied to the
reference function of its operands (brute-force sums, quadrature, interpolation + analytic derivative,
substitution, conjugation, stacking) - never by interpreting the result circuit the library built.
"""
from __future__ import annotations

import itertools

import numpy as np

from mc import cdl, ref


class Pipeline:
    def __init__(self, spec: dict):
        self.spec = spec
        self.circuits, self.roles = cdl.build_pipeline(spec)
        self.nbase = len(spec["circuits"])
        self.ops = list(spec.get("ops", []))
        self._dom = None

    # ------------------------------------------------------------------ meta
    def op_of(self, idx):
        return None if idx < self.nbase else self.ops[idx - self.nbase]

    def domains(self) -> dict:
        if self._dom is None:
            d = {}
            for c in self.circuits[: self.nbase]:
                for v, dv in ref.var_domains(c).items():
                    if v in d and d[v] != dv:
                        raise ref.RefError("inconsistent domains across base circuits")
                    d[v] = dv
            self._dom = d
        return self._dom

    def scope(self, idx) -> list[int]:
        op = self.op_of(idx)
        if op is None:
            return sorted(self.circuits[idx].scope)
        a = op["args"]
        o = op["op"]
        if o == "integrate":
            s = self.scope(a[0])
            z = s if op.get("scope") is None else op["scope"]
            return sorted(set(s) - set(z))
        if o == "evidence":
            return sorted(set(self.scope(a[0])) - {int(k) for k in op["obs"]})
        if o == "concatenate":
            return sorted(set().union(*[self.scope(i) for i in a]))
        return self.scope(a[0])

    def degree(self, idx, v) -> int:
        op = self.op_of(idx)
        if op is None:
            d = 0
            for sl in self.circuits[idx].input_layers:
                inner = getattr(sl, "layer", sl)
                if v in inner.scope and hasattr(inner, "degree"):
                    d = max(d, inner.degree)
            return d
        o, a = op["op"], op["args"]
        if o == "multiply":
            return self.degree(a[0], v) + self.degree(a[1], v)
        if o == "concatenate":
            return max(self.degree(i, v) for i in a)
        return self.degree(a[0], v)

    def num_outputs(self, idx) -> int:
        op = self.op_of(idx)
        if op is None:
            return len(self.circuits[idx].outputs)
        o, a = op["op"], op["args"]
        if o == "multiply":
            return self.num_outputs(a[0]) * self.num_outputs(a[1])
        if o == "concatenate":
            return sum(self.num_outputs(i) for i in a)
        if o == "differentiate":
            # per operand output: one partial per variable of that output's scope, then the output itself
            return sum(n + 1 for n in self._out_scope_sizes(a[0]))
        return self.num_outputs(a[0])

    def _out_scopes(self, idx) -> list[list[int]]:
        """Scope of each output of circuit idx (needed by differentiate)."""
        op = self.op_of(idx)
        if op is None:
            c = self.circuits[idx]
            return [sorted(c.layer_scope(o)) for o in c.outputs]
        o, a = op["op"], op["args"]
        if o == "multiply":
            s1, s2 = self._out_scopes(a[0]), self._out_scopes(a[1])
            return [sorted(set(x) | set(y)) for x, y in itertools.product(s1, s2)]
        if o == "concatenate":
            return [s for i in a for s in self._out_scopes(i)]
        if o == "integrate":
            z = set(self.scope(a[0]) if op.get("scope") is None else op["scope"])
            return [sorted(set(s) - z) for s in self._out_scopes(a[0])]
        if o == "evidence":
            z = {int(k) for k in op["obs"]}
            return [sorted(set(s) - z) for s in self._out_scopes(a[0])]
        if o == "differentiate":
            res = []
            for s in self._out_scopes(a[0]):
                res.extend([s] * (len(s) + 1))
            return res
        return self._out_scopes(a[0])

    def _out_scope_sizes(self, idx):
        return [len(s) for s in self._out_scopes(idx)]

    # ------------------------------------------------------------------ values
    def value(self, idx, val, x: dict, gl_nodes=160) -> np.ndarray:
        """(O, K) complex: value of circuit idx at assignment x by the definition of its operator."""
        op = self.op_of(idx)
        if op is None:
            return np.stack(ref.eval_circuit(self.circuits[idx], val, x)).astype(np.complex128)
        o, a = op["op"], op["args"]
        if o == "integrate":
            s = self.scope(a[0])
            z = sorted(s if op.get("scope") is None else op["scope"])
            return self._integrate(a[0], val, z, x, gl_nodes)
        if o == "multiply":
            v1 = self.value(a[0], val, x, gl_nodes)
            v2 = self.value(a[1], val, x, gl_nodes)
            return np.stack([np.kron(p, q) for p, q in itertools.product(v1, v2)])
        if o == "conjugate":
            return np.conj(self.value(a[0], val, x, gl_nodes))
        if o == "evidence":
            y = dict(x)
            for k, v in op["obs"].items():
                y[int(k)] = v
            return self.value(a[0], val, y, gl_nodes)
        if o == "concatenate":
            return np.concatenate([self.value(i, val, x, gl_nodes) for i in a], axis=0)
        if o == "differentiate":
            return self._differentiate(a[0], val, x, op.get("order", 1), gl_nodes)
        raise ValueError(o)

    def _integrate(self, idx, val, zvars, y, gl_nodes):
        dom = self.domains()
        axes, weights = [], []
        ncont = sum(1 for v in zvars if dom[v][0] == "cont")
        if ncont >= 3:
            raise ref.RefError("quadrature over >= 3 continuous variables is outside the bound of the oracle")
        if ncont == 2:
            gl_nodes = min(gl_nodes, 72)
        for v in zvars:
            d = dom[v]
            if d[0] == "disc":
                axes.append(list(range(d[1])))
                weights.append([1.0] * d[1])
            else:
                t, w = ref.gauss_legendre_2d() if ncont == 2 else ref.gauss_legendre(gl_nodes, -10.5, 10.5)
                axes.append(list(t))
                weights.append(list(w))
        total = None
        for ids in itertools.product(*[range(len(ax)) for ax in axes]):
            x = dict(y)
            w = 1.0
            for j, v in enumerate(zvars):
                x[v] = axes[j][ids[j]]
                w *= weights[j][ids[j]]
            r = self.value(idx, val, x, gl_nodes) * w
            total = r if total is None else total + r
        return total

    def _differentiate(self, idx, val, x, order, gl_nodes):
        base = self.value(idx, val, x, gl_nodes)  # (O, K)
        out_scopes = self._out_scopes(idx)
        rows = []
        cache = {}
        for oi, osc in enumerate(out_scopes):
            for v in osc:  # increasing variable id
                if v not in cache:
                    cache[v] = self._partial(idx, val, x, v, order, gl_nodes)
                rows.append(cache[v][oi])
            rows.append(base[oi])
        return np.stack(rows)

    def _partial(self, idx, val, x, v, order, gl_nodes):
        deg = self.degree(idx, v)
        pts = np.linspace(-1.7, 1.9, deg + 1) if deg > 0 else np.array([0.3])
        vals = []
        for t in pts:
            y = dict(x)
            y[v] = float(t)
            vals.append(self.value(idx, val, y, gl_nodes))
        vals = np.stack(vals)  # (deg+1, O, K)
        vand = np.vander(pts, deg + 1, increasing=True)
        coef = np.linalg.solve(vand, vals.reshape(deg + 1, -1))  # (deg+1, O*K)
        # guard the degree assumption at two fresh points
        for t in (0.77, -1.21):
            y = dict(x)
            y[v] = t
            direct = self.value(idx, val, y, gl_nodes).reshape(-1)
            interp = sum(coef[i] * t**i for i in range(deg + 1))
            if not np.allclose(direct, interp, rtol=1e-7, atol=1e-9):
                raise ref.RefError(f"reference function is not a polynomial of degree {deg} in variable {v}")
        if order > deg:
            d = np.zeros(coef.shape[1], dtype=np.complex128)
        else:
            dc = np.polynomial.polynomial.polyder(coef, m=order, axis=0)
            xv = x[v]
            d = sum(dc[i] * xv**i for i in range(dc.shape[0]))
        return d.reshape(vals.shape[1:])
