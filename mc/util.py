"""Small helpers shared by the checks."""
from __future__ import annotations

import traceback
import zlib


def stable_hash(*xs) -> int:
    return zlib.crc32(repr(xs).encode())


def exc_sig(e: BaseException) -> dict:
    """Classify an exception by type and by the innermost frame inside /repo/cirkit."""
    tb = traceback.extract_tb(e.__traceback__)
    where = None
    for fr in reversed(tb):
        if "/repo/cirkit/" in fr.filename:
            where = fr.filename.split("/repo/cirkit/")[1] + ":" + fr.name
            break
    return {"exc": type(e).__name__, "where": where}


def is_refusal(e: BaseException) -> bool:
    from cirkit.symbolic.circuit import StructuralPropertyError
    from cirkit.symbolic.registry import OperatorSignatureNotFound

    return isinstance(e, (StructuralPropertyError, ValueError, NotImplementedError, OperatorSignatureNotFound))
