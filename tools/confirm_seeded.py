#!/venv/bin/python
"""Confirm a seeded change in a scratch worktree: demo passes without / fails with the change, and the
repository's own test-suite still passes with it. Writes the outcome into seeded/<name>/meta.json.
usage: tools/confirm_seeded.py <name> [--no-tests]"""
import json
import os
import subprocess
import sys

VERIF = os.path.dirname(os.path.dirname(os.path.abspath(__file__)))


def sh(cmd, **kw):
    return subprocess.run(cmd, shell=True, capture_output=True, text=True, **kw)


def main():
    name = sys.argv[1]
    d = os.path.join(VERIF, "seeded", name)
    wt = f"/tmp/confirm-{name}"
    sh(f"git -C /repo worktree remove --force {wt}")
    assert sh(f"git -C /repo worktree add -q {wt} HEAD").returncode == 0
    env = {**os.environ, "PYTHONPATH": wt}
    res = {}
    try:
        demo = os.path.join(d, "demo.py")
        if os.path.exists(demo):
            r0 = sh(f"cd {wt} && /venv/bin/python {demo}", env=env)
            res["demo_unchanged"] = {"rc": r0.returncode, "tail": (r0.stdout + r0.stderr)[-200:]}
        a = sh(f"git -C {wt} apply {d}/patch.diff")
        res["applies"] = a.returncode == 0
        if a.returncode != 0:
            res["apply_error"] = a.stderr[-300:]
        else:
            if os.path.exists(demo):
                r1 = sh(f"cd {wt} && /venv/bin/python {demo}", env=env)
                res["demo_changed"] = {"rc": r1.returncode, "tail": (r1.stdout + r1.stderr)[-200:]}
            if "--no-tests" not in sys.argv:
                t = sh(f"cd {wt} && /venv/bin/python -m pytest -q -p no:cacheprovider --timeout=900 -n 12 2>&1 | tail -3", env=env)
                res["pytest_tail"] = t.stdout.strip()[-300:]
    finally:
        sh(f"git -C /repo worktree remove --force {wt}")
    meta_path = os.path.join(d, "meta.json")
    meta = json.load(open(meta_path)) if os.path.exists(meta_path) else {}
    meta["confirmed"] = res
    json.dump(meta, open(meta_path, "w"), indent=1)
    print(name, json.dumps(res)[:600])


if __name__ == "__main__":
    main()
