#!/bin/bash
# usage: tools/run_all.sh quick|thorough [ids...]
tier=${1:-quick}; shift
ids=${@:-C01 C02 C03 C04 C05 C06 C07 C08 C09 C10 C11 C12 C13 C14 C15 C16 C17 C18 C19 C20}
for c in $ids; do
  s=$(date +%s)
  out=$(/venv/bin/python /verif/run_check.py $c --tier $tier 2>&1); rc=$?
  e=$(date +%s)
  echo "$c rc=$rc $((e-s))s $(echo "$out" | grep -c '^VIOLATION') violations $(echo "$out" | grep -c '^KNOWN-FINDING') known | $(echo "$out" | grep 'tier=' | sed 's/.*cases=/cases=/' | cut -c1-150)"
  if [ $rc -ne 0 ]; then echo "$out" | grep -v "^\[C.. \] sigclass" | tail -5; fi
done
