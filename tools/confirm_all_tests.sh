#!/bin/bash
# Confirm (in scratch worktrees) that the repository's own tests pass with each agent-/own- seeded change.
for d in /verif/seeded/agent-* /verif/seeded/own-*; do
  n=$(basename $d)
  if grep -q pytest_tail $d/meta.json 2>/dev/null; then echo "$n already confirmed"; continue; fi
  /venv/bin/python /verif/tools/confirm_seeded.py $n 2>&1 | cut -c1-200
done
