#!/venv/bin/python
"""Apply each seeded change to /repo, run the relevant checks, undo it, and record what was detected.

usage: tools/seeded.py [--all-checks] [--thorough] [--only=C01,C08] [name-prefix ...]
(--only re-runs just the listed checks, for the changes whose "breaks" mention one of them, and merges into the recorded result)
Results: /verif/seeded/RESULTS.json (and the 'detected_by' field printed per change)."""
import json
import os
import subprocess
import sys
import time

VERIF = os.path.dirname(os.path.dirname(os.path.abspath(__file__)))
SEEDED = os.path.join(VERIF, "seeded")
ALL = [f"C{i:02d}" for i in range(1, 21)]


def sh(cmd, **kw):
    return subprocess.run(cmd, shell=True, capture_output=True, text=True, **kw)


def main():
    args = [a for a in sys.argv[1:] if not a.startswith("--")]
    all_checks = "--all-checks" in sys.argv
    only = next((a.split("=", 1)[1].split(",") for a in sys.argv[1:] if a.startswith("--only=")), None)
    tier = "thorough" if "--thorough" in sys.argv else "quick"
    assert sh("git -C /repo status --porcelain").stdout.strip() == "", "/repo is dirty"
    results_path = os.path.join(SEEDED, "RESULTS.json")
    results = json.load(open(results_path)) if os.path.exists(results_path) else {}
    names = sorted(d for d in os.listdir(SEEDED) if os.path.isfile(os.path.join(SEEDED, d, "patch.diff")))
    if args:
        names = [n for n in names if any(n.startswith(a) for a in args)]
    for name in names:
        d = os.path.join(SEEDED, name)
        meta_path = os.path.join(d, "meta.json")
        meta = json.load(open(meta_path)) if os.path.exists(meta_path) else {}
        checks = ALL if all_checks else meta.get("run_checks") or meta.get("breaks") or ALL
        prev = results.get(name, {})
        if only is not None:
            checks = [c for c in checks if c in only]
            if not checks:
                continue
        r = sh(f"git -C /repo apply {d}/patch.diff")
        if r.returncode != 0:
            print(f"{name}: patch does not apply: {r.stderr.strip()[:200]}")
            continue
        detected, detail = [], {}
        try:
            for c in checks:
                t0 = time.time()
                out = sh(f"/venv/bin/python {VERIF}/run_check.py {c} --tier {tier}", env={**os.environ, "VERIF_WORKERS": os.environ.get("VERIF_WORKERS", "16")})
                viol = [l for l in out.stdout.splitlines() if l.startswith("VIOLATION")]
                detail[c] = {"rc": out.returncode, "violations": len(viol), "wall_s": round(time.time() - t0, 1),
                             "first": next((l for l in out.stdout.splitlines() if "violation sig=" in l), "")[:300]}
                if out.returncode == 1 and viol:
                    detected.append(c)
                elif out.returncode not in (0, 1):
                    detail[c]["stderr"] = out.stderr[-500:]
        finally:
            sh("git -C /repo checkout -- .")
            sh("git -C /repo clean -fdq -- cirkit")
        if only is not None and prev.get("tier") == tier:
            detail = {**prev.get("detail", {}), **detail}
            detected = [c for c in (meta.get("breaks") or ALL) if c in detail and detail[c]["rc"] == 1 and detail[c]["violations"]]
        results[name] = {"breaks": meta.get("breaks"), "detected_by": detected, "detail": detail, "tier": tier}
        print(f"{name}: breaks={meta.get('breaks')} detected_by={detected} " + " ".join(f"{c}:rc{v['rc']}" for c, v in detail.items()))
        with open(results_path, "w") as f:
            json.dump(results, f, indent=1)
    assert sh("git -C /repo status --porcelain").stdout.strip() == "", "/repo left dirty"


if __name__ == "__main__":
    main()
