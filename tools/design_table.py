#!/venv/bin/python
"""Regenerates section 5 of DESIGN.md from seeded/*/meta.json and seeded/RESULTS.json."""
import json
import os
import re

VERIF = os.path.dirname(os.path.dirname(os.path.abspath(__file__)))
S = os.path.join(VERIF, "seeded")

HISTORY = {  # changes that an earlier version of the checks missed, and what was strengthened
    "agent-C04": "missed at first: the pair alphabet had no arity-1 x arity-2 operands; added heterogeneous-arity pairs and flat sums of arity 1/2/3",
    "agent-C10": "missed at first: the Gaussian base with an explicit log-partition tensor was only in the thorough tier; moved into the quick slice",
    "agent-C13": "missed at first by C13 and C17: all tensors of a circuit had the same learnable flag; C17 now folds siblings of different learnability and checks where gradients arrive, C13 freezes every second parameterised layer",
    "agent-C17": "same change as agent-C13 (written independently)",
    "agent-C14": "missed at first: clamp bounds were never exactly 0.0; added zero-valued (falsy) hyper-parameters",
    "agent-C18": "first reported as a harness error (the nested exit raised inside the harness); API exceptions inside a transition are now violations",
    "agent-C19": "missed at first by C19 (caught by C10): derived circuits were compiled before the load; the L event now compiles them lazily after load_state_dict",
    "revert-13-4866aad": "C02 missed it at first (C07 caught it): added complex-parameter pipelines with conjugation to C02",
    "agent-C03": "C02 missed it at first (C03 caught it): added mixed input kinds per variable to C02",
    "agent6-C13": "missed at first: gradients were compared across flags (identical under the change) and with finite differences at 1e-5 on O(1) values (error 1e-12); added the 'tiny' valuation (sum weights ~1e-7) and a comparison of every semiring's gradient with the sum-product semiring's autograd at 1e-8 relative",
    "agent6-C11": "missed at first: every categorical probability of the explored circuits was positive, so no placeholder at a marginalised position had likelihood zero; added probability tables with exact zeros, with every row of the domain used as placeholder",
    "agent5-C19": "missed at first by C19 and C10: no compiled circuit was ever put in evaluation mode; both checks now also run configurations in which every circuit (C19: the fresh instance) is in eval mode and evaluated once before the update / load",
    "agent4-C01": "C01 missed it at first (C14 caught it): all sum layers of a circuit shared one weight parameterisation; added 'alt' / 'alt2' (softmax(tensor) and plain tensors alternate between sibling sums)",
    "agent4-C12": "C12 and C01 missed it at first (C14 caught it): no explored structure had two mixing layers of the same shape side by side (one folded mixing-weight node); added QuadGraph(1,3,4) / PoonDomingos(1,3,3) with mixing weights to C12 (Z by brute force over 4096 / 512 assignments) and a 4-variable twin-mixture tree to C01",
    "agent4-C15": "missed at first: every compiled circuit was sampled under one parameter valuation only; for N = 1 the whole stream exploration is now repeated on the same circuit and query after an in-place update of every parameter",
    "agent3-C08": "missed at first: the pair pool (<= 4 layers) contained no smooth+decomposable circuit that is not structured-decomposable (needs >= 6 layers); all 15 such structures with <= 6 layers and two 8-layer ones are now paired with the whole pool",
    "agent3-C18": "missed at first: derived circuits were only compiled as chains; added the event 'dag-first' (c0*(c0*c1) compiled in one call, nothing compiled before) and a value check of derived circuits against the operands compiled in the same context",
    "agent3-C19": "missed at first by C19: every tensor of the explored models was learnable; the histories are now also explored on partially frozen models (non-learnable tensors with a random initialiser)",
    "agent2-C02": "C02 missed it at first (C14 caught it): added integrate of the product of two DIFFERENT circuits (a square is symmetric and hides the transposition)",
    "agent2-C03": "C03 and C02 missed it at first (C14 caught it): same strengthening as agent2-C02 (mode pair-int in C03)",
    "agent2-C06": "C06 missed it at first (C17 caught it): observations of continuous variables now mix Python ints and floats",
    "agent2-C10": "missed at first: intermediate states of a history were not evaluated and nothing ran under torch.no_grad(); every state is now evaluated with and without autograd",
    "agent2-C12": "missed at first (all runs are float64, where the global-max softmax only underflows beyond ~745): added the 'rowshift' valuation (rows 400 apart, exact for a per-row softmax) to C12 and C14",
    "agent2-C15": "missed at first in quick: the asymmetric shared-leaf DAGs were only in the thorough tier; two of them (K = 1) moved into quick",
}


def main():
    res = json.load(open(os.path.join(S, "RESULTS.json")))
    rows = []
    for name in sorted(os.listdir(S)):
        d = os.path.join(S, name)
        if not os.path.isfile(os.path.join(d, "patch.diff")):
            continue
        meta = json.load(open(os.path.join(d, "meta.json")))
        r = res.get(name, {})
        what = meta.get("fix_subject", meta.get("needs", ""))
        what = re.sub(r"^fix: ", "reverts: ", what)
        tests = meta.get("confirmed", {}).get("pytest_tail", "") or meta.get("tests", "")
        m = re.search(r"(\d+ passed[^\n]*?)(?: in|$)", tests)
        rows.append((name, ",".join(meta.get("breaks", [])), ",".join(r.get("detected_by", [])) or "-", what[:150], (m.group(1) if m else tests[:40]), HISTORY.get(name, "")))
    out = ["| seeded change | breaks | detected by (quick tier) | what it needs to manifest | repository tests with the change | note |", "|---|---|---|---|---|---|"]
    for r in rows:
        out.append("| " + " | ".join(x.replace("|", "/") for x in r) + " |")
    text = "\n".join(out)
    p = os.path.join(VERIF, "DESIGN.md")
    s = open(p).read()
    a = s.index("<!-- SEEDED-TABLE-BEGIN -->") + len("<!-- SEEDED-TABLE-BEGIN -->")
    b = s.index("<!-- SEEDED-TABLE-END -->")
    s = s[:a] + "\n" + text + "\n" + s[b:]
    open(p, "w").write(s)
    det = sum(1 for r in rows if r[2] != "-")
    print(f"{len(rows)} seeded changes, {det} detected")


if __name__ == "__main__":
    main()
